(* Proofs about Model/Plots.v (C20).  Axiom-free. *)
From Coq Require Import ZArith List Bool String Lia Permutation.
From Chi Require Import Model.Plots.
Import ListNotations.
Open Scope Z_scope.

Definition leq (l : list Z) (x : Z) := cnt (fun y => y <=? x) l.

Lemma cnt_nonneg p l : 0 <= cnt p l.
Proof. induction l as [|y l IH]; cbn [cnt]; [lia|]. destruct (p y); lia. Qed.

Lemma cnt_split l x : leq l x = less l x + eqc l x.
Proof.
  unfold leq, less, eqc. induction l as [|y l IH]; cbn [cnt]; [lia|].
  destruct (Z.leb_spec y x), (Z.ltb_spec y x), (Z.eqb_spec y x); lia.
Qed.

Lemma inside_eq L U l : L <= U -> inside L U l = leq l U - less l L.
Proof.
  intros H. unfold inside, leq, less. induction l as [|y l IH]; cbn [cnt]; [lia|].
  destruct (Z.leb_spec L y), (Z.leb_spec y U), (Z.ltb_spec y L); cbn [andb]; lia.
Qed.

Lemma less_mono l x y : x <= y -> less l x <= less l y.
Proof.
  intros H. unfold less. induction l as [|z l IH]; cbn [cnt]; [lia|].
  destruct (Z.ltb_spec z x), (Z.ltb_spec z y); lia.
Qed.

Lemma less_eq_le l x y : x < y -> less l x + eqc l x <= less l y.
Proof.
  intros H. unfold less, eqc. induction l as [|z l IH]; cbn [cnt]; [lia|].
  destruct (Z.ltb_spec z x), (Z.eqb_spec z x), (Z.ltb_spec z y); lia.
Qed.

Lemma eqc_pos l x : In x l -> 1 <= eqc l x.
Proof.
  unfold eqc. induction l as [|z l IH]; cbn [cnt In]; [tauto|]. intros [->|H].
  - rewrite Z.eqb_refl. pose proof (cnt_nonneg (fun y => y =? x) l). lia.
  - specialize (IH H). destruct (z =? x); lia.
Qed.

Lemma less_eq_le_n l x : less l x + eqc l x <= n_of l.
Proof.
  unfold less, eqc, n_of. induction l as [|z l IH]; cbn [cnt]; [lia|].
  destruct (Z.ltb_spec z x), (Z.eqb_spec z x); lia.
Qed.

(* ranks are monotone: a larger sample value has a larger (average) rank *)
Lemma rank2_mono l x y : In x l -> In y l -> x <= y -> rank2 l x <= rank2 l y.
Proof.
  intros Hx Hy H. unfold rank2. destruct (Z.eq_dec x y) as [->|Hne]; [lia|].
  pose proof (less_eq_le l x y ltac:(lia)). pose proof (eqc_pos l y Hy).
  pose proof (eqc_pos l x Hx). pose proof (cnt_nonneg (fun z => z <? x) l). unfold less in *. lia.
Qed.

(* Any lower limit L (a sample with pct <= 1/2 - p/2) and upper limit U (a sample with pct >= 1/2 + p/2)
   enclose at least the fraction p = a/b of the samples, ties included. *)
Theorem band_mass_general l a b L U :
  0 < a -> a < b -> In L l -> In U l ->
  below l a b L = true -> above l a b U = true ->
  a * n_of l <= b * inside L U l.
Proof.
  intros Ha Hab HL HU HbL HaU. unfold below, above, rank2 in *.
  apply Z.leb_le in HbL. apply Z.geb_le in HaU.
  pose proof (eqc_pos l L HL) as EL. pose proof (eqc_pos l U HU) as EU.
  pose proof (cnt_nonneg (fun y => y <? L) l) as NL. fold (less l L) in NL.
  assert (Hn : 0 <= n_of l) by apply cnt_nonneg.
  pose proof (less_eq_le_n l L) as TL. pose proof (less_eq_le_n l U) as TU.
  pose proof (cnt_nonneg (fun y => y <? U) l) as NU. fold (less l U) in NU.
  assert (HLU : L < U).
  { destruct (Z_lt_le_dec L U) as [|Hge]; [assumption|exfalso].
    pose proof (less_mono l U L Hge) as M.
    destruct (Z.eq_dec U L) as [->|Hne]; [nia|].
    pose proof (less_eq_le l U L ltac:(lia)) as M2. nia. }
  rewrite inside_eq by lia. rewrite cnt_split.
  nia.
Qed.

(* max / min of a list *)
Lemma maxl_spec l m : maxl l = Some m -> In m l /\ forall x, In x l -> x <= m.
Proof.
  revert m. induction l as [|y l IH]; intros m H; cbn [maxl] in H; [discriminate|].
  destruct (maxl l) as [m'|] eqn:E.
  - injection H as <-. destruct (IH m' eq_refl) as [Hin Hle]. split.
    + destruct (Z.max_spec y m') as [[_ ->]|[_ ->]]; [now right | now left].
    + intros x [<-|Hx]; [lia|]. specialize (Hle x Hx). lia.
  - injection H as <-. destruct l; [|cbn in E; destruct (maxl l); discriminate].
    split; [now left|]. intros x [<-|[]]. lia.
Qed.
Lemma minl_spec l m : minl l = Some m -> In m l /\ forall x, In x l -> m <= x.
Proof.
  revert m. induction l as [|y l IH]; intros m H; cbn [minl] in H; [discriminate|].
  destruct (minl l) as [m'|] eqn:E.
  - injection H as <-. destruct (IH m' eq_refl) as [Hin Hle]. split.
    + destruct (Z.min_spec y m') as [[_ ->]|[_ ->]]; [now left | now right].
    + intros x [<-|Hx]; [lia|]. specialize (Hle x Hx). lia.
  - injection H as <-. destruct l; [|cbn in E; destruct (minl l); discriminate].
    split; [now left|]. intros x [<-|[]]. lia.
Qed.
Lemma maxl_none l : maxl l = None -> l = [].
Proof. destruct l; [reflexivity|]. cbn. destruct (maxl l); discriminate. Qed.
Lemma minl_none l : minl l = None -> l = [].
Proof. destruct l; [reflexivity|]. cbn. destruct (minl l); discriminate. Qed.

(* the limits chi draws are sample values that satisfy the rank conditions *)
Theorem lower_limit_spec l a b L : lower_limit l a b = Some L ->
  In L l /\ below l a b L = true /\ forall x, In x l -> below l a b x = true -> x <= L.
Proof.
  unfold lower_limit. intros H. destruct (maxl_spec _ _ H) as [Hin Hmax].
  apply filter_In in Hin. destruct Hin as [Hin Hb]. repeat split; try assumption.
  intros x Hx Hbx. apply Hmax. apply filter_In. now split.
Qed.
Theorem upper_limit_spec l a b U : upper_limit l a b = Some U ->
  In U l /\ above l a b U = true /\ forall x, In x l -> above l a b x = true -> U <= x.
Proof.
  unfold upper_limit. intros H. destruct (minl_spec _ _ H) as [Hin Hmin].
  apply filter_In in Hin. destruct Hin as [Hin Hb]. repeat split; try assumption.
  intros x Hx Hbx. apply Hmin. apply filter_In. now split.
Qed.

Theorem band_mass l a b L U :
  0 < a -> a < b -> lower_limit l a b = Some L -> upper_limit l a b = Some U ->
  In L l /\ In U l /\ a * n_of l <= b * inside L U l.
Proof.
  intros Ha Hab HL HU.
  destruct (lower_limit_spec _ _ _ _ HL) as (H1 & H2 & _).
  destruct (upper_limit_spec _ _ _ _ HU) as (H3 & H4 & _).
  repeat split; try assumption. now apply band_mass_general.
Qed.

(* bands are nested for increasing probabilities a1/b1 <= a2/b2 *)
Theorem bands_nested l a1 b1 a2 b2 L1 U1 L2 U2 :
  0 < b1 -> 0 < b2 -> a1 * b2 <= a2 * b1 ->
  lower_limit l a1 b1 = Some L1 -> upper_limit l a1 b1 = Some U1 ->
  lower_limit l a2 b2 = Some L2 -> upper_limit l a2 b2 = Some U2 ->
  L2 <= L1 /\ U1 <= U2.
Proof.
  intros Hb1 Hb2 Hp HL1 HU1 HL2 HU2.
  destruct (lower_limit_spec _ _ _ _ HL1) as (_ & _ & M1).
  destruct (upper_limit_spec _ _ _ _ HU1) as (_ & _ & m1).
  destruct (lower_limit_spec _ _ _ _ HL2) as (I2 & B2 & _).
  destruct (upper_limit_spec _ _ _ _ HU2) as (J2 & A2 & _).
  assert (Hn : 0 <= n_of l) by apply cnt_nonneg.
  split.
  - apply M1; [assumption|]. unfold below in *. apply Z.leb_le in B2. apply Z.leb_le. nia.
  - apply m1; [assumption|]. unfold above in *. apply Z.geb_le in A2. apply Z.geb_le. nia.
Qed.

(* the polygon: 2 points per time, closed shape *)
Theorem polygon_shape rows a b :
  let p := polygon rows a b in
  List.length (fst p) = (2 * List.length (times_of rows))%nat /\
  List.length (snd p) = (2 * List.length (times_of rows))%nat /\
  fst p = times_of rows ++ rev (times_of rows).
Proof.
  unfold polygon, band. cbn [fst snd]. rewrite !app_length, !rev_length, !map_length.
  repeat split; try lia. rewrite map_map. cbn [fst]. now rewrite map_id.
Qed.

(* ---------------- data traces ---------------- *)
Lemma suniq_In l x : In x (suniq l) <-> In x l.
Proof.
  induction l as [|y l IH]; cbn [suniq In]; [tauto|]. rewrite filter_In, IH.
  destruct (String.eqb_spec x y) as [->|Hne]; cbn; [tauto|]. split; [tauto|].
  intros [->|H]; [congruence|]. right. split; [assumption|reflexivity].
Qed.
Lemma suniq_NoDup l : NoDup (suniq l).
Proof.
  induction l as [|y l IH]; cbn [suniq]; constructor.
  - rewrite filter_In. intros [_ H]. now rewrite String.eqb_refl in H.
  - now apply NoDup_filter.
Qed.

(* one marker trace per individual, holding exactly that individual's (time, value) pairs of the chosen
   observable *)
Theorem biom_trace_exact o rows i tv :
  In tv (biom_trace o rows i) <->
  exists r, In r rows /\ obs_is o r = true /\ rid r = i /\ tv = (rtime r, rval r).
Proof.
  unfold biom_trace. rewrite in_map_iff. split.
  - intros [r [E Hr]]. apply filter_In in Hr. destruct Hr as [Hin Hb]. apply andb_prop in Hb.
    destruct Hb as [H1 H2]. apply String.eqb_eq in H2. exists r. repeat split; auto.
  - intros [r (Hin & H1 & H2 & ->)]. exists r. split; [reflexivity|]. apply filter_In. split; [assumption|].
    rewrite H1. cbn. now apply String.eqb_eq.
Qed.
Theorem dose_trace_exact rows i x :
  In x (dose_trace rows i) <->
  exists r, In r rows /\ has_dose r = true /\ rid r = i /\ x = (rtime r, rdose r, rdur r).
Proof.
  unfold dose_trace. rewrite in_map_iff. split.
  - intros [r [E Hr]]. apply filter_In in Hr. destruct Hr as [Hin Hb]. apply andb_prop in Hb.
    destruct Hb as [H1 H2]. apply String.eqb_eq in H2. exists r. repeat split; auto.
  - intros [r (Hin & H1 & H2 & ->)]. exists r. split; [reflexivity|]. apply filter_In. split; [assumption|].
    rewrite H1. cbn. now apply String.eqb_eq.
Qed.
Theorem figure_ids o rows :
  NoDup (map fst (biom_figure o rows)) /\
  forall i, In i (map fst (biom_figure o rows)) <-> exists r, In r rows /\ obs_is o r = true /\ rid r = i.
Proof.
  unfold biom_figure. rewrite map_map. cbn [fst]. rewrite map_id. split; [apply suniq_NoDup|].
  intros i. unfold ids_of. rewrite suniq_In, in_map_iff. split.
  - intros [r [E Hr]]. apply filter_In in Hr. exists r. tauto.
  - intros [r (H1 & H2 & H3)]. exists r. split; [assumption|]. apply filter_In. tauto.
Qed.
(* every row of the observable is drawn exactly once: the traces partition the rows *)
Lemma filter_and_length {A} (p q : A -> bool) l :
  List.length (filter (fun r => p r && q r) l) = List.length (filter q (filter p l)).
Proof.
  induction l as [|x l IH]; cbn [filter]; [reflexivity|].
  destruct (p x); cbn [andb filter]; [destruct (q x); cbn; now rewrite IH | assumption].
Qed.

(* ======== row-order independence of the band, exact unique times, exact polygon values ======== *)
(* ---------------- the band does not depend on the order of the sample rows ---------------- *)
Lemma cnt_perm p l l' : Permutation l l' -> cnt p l = cnt p l'.
Proof. induction 1 as [|x l l' _ IH|x y l|l l' l'' _ IH1 _ IH2]; cbn [cnt]; lia. Qed.
Lemma filter_perm {A} (p : A -> bool) l l' : Permutation l l' -> Permutation (filter p l) (filter p l').
Proof.
  induction 1 as [|x l l' _ IH|x y l|l l' l'' _ IH1 _ IH2]; cbn [filter].
  - constructor.
  - destruct (p x); [now constructor|assumption].
  - destruct (p x), (p y); try apply Permutation_refl. apply perm_swap.
  - eapply Permutation_trans; eassumption.
Qed.
Lemma maxl_perm l l' : Permutation l l' -> maxl l = maxl l'.
Proof.
  intros HP. destruct (maxl l) as [m|] eqn:E, (maxl l') as [m'|] eqn:E'; try reflexivity.
  - destruct (maxl_spec _ _ E) as [Hi Hm], (maxl_spec _ _ E') as [Hi' Hm'].
    pose proof (Hm' m (Permutation_in _ HP Hi)). pose proof (Hm m' (Permutation_in _ (Permutation_sym HP) Hi')).
    f_equal. lia.
  - apply maxl_none in E'. subst l'. apply Permutation_sym, Permutation_nil in HP. subst l. discriminate.
  - apply maxl_none in E. subst l. apply Permutation_nil in HP. subst l'. discriminate.
Qed.
Lemma minl_perm l l' : Permutation l l' -> minl l = minl l'.
Proof.
  intros HP. destruct (minl l) as [m|] eqn:E, (minl l') as [m'|] eqn:E'; try reflexivity.
  - destruct (minl_spec _ _ E) as [Hi Hm], (minl_spec _ _ E') as [Hi' Hm'].
    pose proof (Hm' m (Permutation_in _ HP Hi)). pose proof (Hm m' (Permutation_in _ (Permutation_sym HP) Hi')).
    f_equal. lia.
  - apply minl_none in E'. subst l'. apply Permutation_sym, Permutation_nil in HP. subst l. discriminate.
  - apply minl_none in E. subst l. apply Permutation_nil in HP. subst l'. discriminate.
Qed.
Lemma filter_ext_all {A} (p q : A -> bool) l : (forall x, p x = q x) -> filter p l = filter q l.
Proof. intros H. apply filter_ext. exact H. Qed.
Theorem limits_perm l l' a b : Permutation l l' ->
  lower_limit l a b = lower_limit l' a b /\ upper_limit l a b = upper_limit l' a b.
Proof.
  intros HP. unfold lower_limit, upper_limit.
  assert (Hb : forall x, below l a b x = below l' a b x).
  { intros x. unfold below, rank2, less, eqc, n_of. now rewrite !(cnt_perm _ _ _ HP). }
  assert (Ha : forall x, above l a b x = above l' a b x).
  { intros x. unfold above, rank2, less, eqc, n_of. now rewrite !(cnt_perm _ _ _ HP). }
  split.
  - rewrite (filter_ext_all _ _ l Hb). apply maxl_perm, filter_perm, HP.
  - rewrite (filter_ext_all _ _ l Ha). apply minl_perm, filter_perm, HP.
Qed.

(* ---------------- the unique times: each time of the frame once, nothing else ---------------- *)
Lemma uniq_In l x : In x (uniq l) <-> In x l.
Proof.
  induction l as [|y l IH]; cbn [uniq In]; [tauto|]. rewrite filter_In, IH.
  destruct (Z.eqb_spec x y) as [->|Hne]; cbn; [tauto|]. split; [tauto|].
  intros [->|H]; [congruence|]. right. split; [assumption|reflexivity].
Qed.
Lemma uniq_NoDup l : NoDup (uniq l).
Proof.
  induction l as [|y l IH]; cbn [uniq]; constructor.
  - rewrite filter_In. intros [_ H]. now rewrite Z.eqb_refl in H.
  - now apply NoDup_filter.
Qed.
Theorem times_exact rows :
  NoDup (times_of rows) /\ forall t, In t (times_of rows) <-> exists v, In (t, v) rows.
Proof.
  split; [apply uniq_NoDup|]. intros t. unfold times_of. rewrite uniq_In, in_map_iff. split.
  - intros [[t' v] [E H]]. cbn in E. subst t'. now exists v.
  - intros [v H]. now exists (t, v).
Qed.
(* the samples used at one time are exactly the values of the rows with that time, in frame order *)
Theorem samples_exact rows t v : In v (samples_at rows t) <-> In (t, v) rows.
Proof.
  unfold samples_at. rewrite in_map_iff. split.
  - intros [[t' v'] [E H]]. apply filter_In in H. destruct H as [H Ht]. cbn in *. subst v'.
    apply Z.eqb_eq in Ht. now subst t'.
  - intros H. exists (t, v). split; [reflexivity|]. apply filter_In. split; [assumption|]. cbn. apply Z.eqb_refl.
Qed.

(* ---------------- the drawn polygon carries exactly the limits of each time ---------------- *)
Theorem polygon_values rows a b :
  snd (polygon rows a b) =
    map (fun t => upper_limit (samples_at rows t) a b) (times_of rows) ++
    rev (map (fun t => lower_limit (samples_at rows t) a b) (times_of rows)).
Proof. unfold polygon, band. cbn [snd]. now rewrite !map_map. Qed.

(* row order of the samples table does not change the band of any time *)
Lemma samples_perm rows rows' t : Permutation rows rows' -> Permutation (samples_at rows t) (samples_at rows' t).
Proof. intros H. unfold samples_at. apply Permutation_map, filter_perm, H. Qed.
Theorem band_row_order rows rows' a b t : Permutation rows rows' ->
  lower_limit (samples_at rows t) a b = lower_limit (samples_at rows' t) a b /\
  upper_limit (samples_at rows t) a b = upper_limit (samples_at rows' t) a b.
Proof. intros H. apply limits_perm, samples_perm, H. Qed.
