(* Proofs about Model/ErrorModels.v : C04 (and the sampling transforms used by C06). *)
From Coq Require Import Reals Lra List ssreflect.
From Coquelicot Require Import Coquelicot.
From Chi Require Import Base.RSum Base.Score Base.GaussInt Base.Normal Model.ErrorModels.
Import ListNotations.
Open Scope R_scope.

Ltac rsolve :=
  repeat split; try lra;
  try (apply Rgt_not_eq; first [apply sqrt2pi_pos | apply sqrt2_pos | lra | nra]); try nra.

(* ------------------------------------------------------------------------------------------ *)
(* The normal density: push-forward of phi, interval masses, total mass                        *)
(* ------------------------------------------------------------------------------------------ *)

Lemma normal_pdf_phi st m y : 0 < st -> normal_pdf st m y = / st * phi ((y - m) / st).
Proof.
  move=> Hs. rewrite /normal_pdf /phi.
  have -> : - (y - m) ^ 2 / (2 * st ^ 2) = - ((y - m) / st) ^ 2 / 2 by (field; lra).
  field; rsolve.
Qed.

Lemma normal_pdf_pos st m y : 0 < st -> 0 < normal_pdf st m y.
Proof.
  move=> Hs. rewrite normal_pdf_phi //. apply Rmult_lt_0_compat; [by apply Rinv_0_lt_compat | apply phi_pos].
Qed.

Theorem normal_interval_mass st m a b : 0 < st ->
  is_RInt (normal_pdf st m) a b (RInt phi ((a - m) / st) ((b - m) / st)).
Proof.
  move=> Hs.
  apply is_RInt_ext with (fun y => scal (/ st) (phi (/ st * y + (- m / st)))).
  - move=> x _. rewrite normal_pdf_phi // /scal /= /mult /=. f_equal. f_equal. field. lra.
  - apply: is_RInt_comp_lin.
    replace (/ st * a + - m / st) with ((a - m) / st) by (field; lra).
    replace (/ st * b + - m / st) with ((b - m) / st) by (field; lra).
    apply: RInt_correct. apply ex_RInt_phi.
Qed.

Theorem normal_total_mass st m : 0 < st ->
  is_lim (fun b => RInt (normal_pdf st m) (m - b) (m + b)) p_infty 1.
Proof.
  move=> Hs.
  apply is_lim_ext with (fun b => RInt phi (- b / st) (b / st)).
  - move=> b. symmetry. apply is_RInt_unique.
    have := normal_interval_mass st m (m - b) (m + b) Hs.
    replace ((m - b - m) / st) with (- b / st) by (field; lra).
    by replace ((m + b - m) / st) with (b / st) by (field; lra).
  - by apply phi_scaled_total_mass.
Qed.

(* ------------------------------------------------------------------------------------------ *)
(* helpers                                                                                     *)
(* ------------------------------------------------------------------------------------------ *)

Lemma ln2pi_half : exp (- (ln2pi / 2)) = / sqrt (2 * PI).
Proof.
  rewrite exp_Ropp /ln2pi exp_half_ln //. generalize PI_RGT_0; lra.
Qed.

(* one observation: the model output as a function of the coordinate that moves, its derivative
   (the output sensitivity chi is handed), and the measured value *)
Record obs := { out : R -> R; sens : R; yv : R }.
Definition outs (os : list obs) (x : R) : list R := map (fun o => out o x) os.
Definition ysof (os : list obs) : list R := map yv os.
Definition sensof (os : list obs) : list R := map sens os.

Lemma outs_length os x : length (outs os x) = length os. Proof. by rewrite /outs map_length. Qed.
Lemma ysof_length os : length (ysof os) = length os. Proof. by rewrite /ysof map_length. Qed.

Lemma combine_outs_ys {D} (h : R * R -> D) os x :
  map h (combine (outs os x) (ysof os)) = map (fun o => h (out o x, yv o)) os.
Proof. by rewrite /outs /ysof map_combine_map. Qed.

Lemma combine3 {D} (h : R * R * R -> D) os x :
  map h (combine (combine (outs os x) (ysof os)) (sensof os))
  = map (fun o => h (out o x, yv o, sens o)) os.
Proof. rewrite /outs /ysof /sensof. elim: os => [|o os IH] //=. by rewrite IH. Qed.

(* ------------------------------------------------------------------------------------------ *)
(* Gaussian error model                                                                        *)
(* ------------------------------------------------------------------------------------------ *)

Theorem G_total_is_sum s ms ys : length ms = length ys ->
  G_total s ms ys = Rsum (map (fun p => G_pw s (fst p) (snd p)) (combine ms ys)).
Proof.
  elim: ms ys => [|m ms IH] [|y ys] //= H.
  - rewrite /G_total /=. lra.
  - case: H => H. move: (IH ys H). rewrite /G_total.
    cbn [length map combine Rsum fst snd]. rewrite S_INR => <-. rewrite /G_pw. lra.
Qed.

Theorem G_density s m y : 0 < s -> exp (G_pw s m y) = normal_pdf s m y.
Proof.
  move=> Hs. rewrite normal_pdf_phi // /G_pw /phi.
  have -> : - (ln2pi / 2 + ln s) - (m - y) ^ 2 / s ^ 2 / 2
            = - (ln2pi / 2) + (- ln s + - ((y - m) / s) ^ 2 / 2) by (field; lra).
  rewrite !exp_plus ln2pi_half exp_Ropp exp_ln //. field; rsolve.
Qed.

Lemma G_pw_dpsi s (o : obs) x : 0 < s -> is_derive (out o) x (sens o) ->
  is_derive (fun t => G_pw s (out o t) (yv o)) x ((yv o - out o x) * sens o / s^2).
Proof.
  move=> Hs Hf. rewrite /G_pw. auto_derive.
  - repeat split; try lra. by eexists; exact Hf.
  - replace (Derive (fun x0 : R => out o x0) x) with (sens o)
      by (symmetry; apply is_derive_unique; exact Hf).
    field. lra.
Qed.

Theorem G_dpsi_correct s os x :
  0 < s -> (forall o, In o os -> is_derive (out o) x (sens o)) ->
  is_derive (fun t => G_total s (outs os t) (ysof os)) x
            (G_dpsi s (outs os x) (ysof os) (sensof os)).
Proof.
  move=> Hs H.
  apply is_derive_ext with (fun t => Rsum (map (fun o => G_pw s (out o t) (yv o)) os)).
  - move=> t. rewrite G_total_is_sum; last by rewrite outs_length ysof_length.
    by rewrite (combine_outs_ys (fun p => G_pw s (fst p) (snd p))).
  - have -> : G_dpsi s (outs os x) (ysof os) (sensof os)
              = Rsum (map (fun o => (yv o - out o x) * sens o / s^2) os).
    { rewrite /G_dpsi (combine3 (fun q => (snd (fst q) - fst (fst q)) * snd q)) /=.
      elim: os {H} => [|o os IH] /=; first by (field; lra).
      rewrite -IH. field. lra. }
    apply (is_derive_Rsum os (fun o t => G_pw s (out o t) (yv o))).
    move=> o Ho. apply G_pw_dpsi => //. by apply H.
Qed.

Lemma G_pw_dsigma s m y : 0 < s ->
  is_derive (fun t => G_pw t m y) s ((y - m)^2 / s^3 - / s).
Proof.
  move=> Hs. rewrite /G_pw. auto_derive.
  - rsolve.
  - field; rsolve.
Qed.

Theorem G_dsigma_correct s ms ys : 0 < s -> length ms = length ys ->
  is_derive (fun t => G_total t ms ys) s (G_dsigma s ms ys).
Proof.
  move=> Hs Hl.
  apply is_derive_ext with (fun t => Rsum (map (fun p => G_pw t (fst p) (snd p)) (combine ms ys))).
  - move=> t. by rewrite G_total_is_sum.
  - have -> : G_dsigma s ms ys
              = Rsum (map (fun p => (snd p - fst p)^2 / s^3 - / s) (combine ms ys)).
    { rewrite /G_dsigma.
      rewrite (Rsum_map_ext (fun p => (snd p - fst p)^2 / s^3 - / s)
                 (fun p => (snd p - fst p)^2 * / s^3 + - / s)); last by move=> a _; field; rsolve.
      rewrite Rsum_map_affine combine_length_eq //. field; rsolve. }
    apply (is_derive_Rsum (combine ms ys) (fun p t => G_pw t (fst p) (snd p))).
    move=> [m y] _ /=. by apply G_pw_dsigma.
Qed.

(* ------------------------------------------------------------------------------------------ *)
(* Constant + multiplicative Gaussian error model (sigma_tot = sb + sr * m)                    *)
(* ------------------------------------------------------------------------------------------ *)

Theorem CMG_total_is_sum sb sr ms ys : length ms = length ys ->
  CMG_total sb sr ms ys = Rsum (map (fun p => CMG_pw sb sr (fst p) (snd p)) (combine ms ys)).
Proof.
  elim: ms ys => [|m ms IH] [|y ys] //= H.
  - rewrite /CMG_total /=. lra.
  - case: H => H. move: (IH ys H). rewrite /CMG_total.
    cbn [length map combine Rsum fst snd]. rewrite S_INR => <-. rewrite /CMG_pw. lra.
Qed.

Theorem CMG_density sb sr m y : 0 < sb + sr * m ->
  exp (CMG_pw sb sr m y) = normal_pdf (sb + sr * m) m y.
Proof.
  move=> Hs. rewrite normal_pdf_phi // /CMG_pw /phi. set st := sb + sr * m in Hs |- *.
  have -> : - ln2pi / 2 - ln st - (m - y) ^ 2 / st ^ 2 / 2
            = - (ln2pi / 2) + (- ln st + - ((y - m) / st) ^ 2 / 2) by (field; lra).
  rewrite !exp_plus ln2pi_half exp_Ropp exp_ln //. field; rsolve.
Qed.

Lemma CMG_pw_dpsi sb sr (o : obs) x :
  0 < sb + sr * out o x -> is_derive (out o) x (sens o) ->
  is_derive (fun t => CMG_pw sb sr (out o t) (yv o)) x
            (CMG_dpsi_term sb sr (out o x) (yv o) (sens o)).
Proof.
  move=> Hs Hf. rewrite /CMG_pw /CMG_dpsi_term. auto_derive.
  - repeat split; try (by eexists; exact Hf); rsolve.
  - replace (Derive (fun x0 : R => out o x0) x) with (sens o)
      by (symmetry; apply is_derive_unique; exact Hf).
    field; rsolve.
Qed.

Theorem CMG_dpsi_correct sb sr os x :
  (forall o, In o os -> 0 < sb + sr * out o x /\ is_derive (out o) x (sens o)) ->
  is_derive (fun t => CMG_total sb sr (outs os t) (ysof os)) x
            (CMG_dpsi sb sr (outs os x) (ysof os) (sensof os)).
Proof.
  move=> H.
  apply is_derive_ext with (fun t => Rsum (map (fun o => CMG_pw sb sr (out o t) (yv o)) os)).
  - move=> t. rewrite CMG_total_is_sum; last by rewrite outs_length ysof_length.
    by rewrite (combine_outs_ys (fun p => CMG_pw sb sr (fst p) (snd p))).
  - rewrite /CMG_dpsi
      (combine3 (fun q => CMG_dpsi_term sb sr (fst (fst q)) (snd (fst q)) (snd q))) /=.
    apply (is_derive_Rsum os (fun o t => CMG_pw sb sr (out o t) (yv o))
             (fun o => CMG_dpsi_term sb sr (out o x) (yv o) (sens o))).
    move=> o Ho. case: (H o Ho) => Hs Hd. by apply CMG_pw_dpsi.
Qed.

Lemma CMG_pw_dsb sb sr m y : 0 < sb + sr * m ->
  is_derive (fun t => CMG_pw t sr m y) sb (CMG_dsb_term sb sr m y).
Proof.
  move=> Hs. rewrite /CMG_pw /CMG_dsb_term. auto_derive; [rsolve | field; rsolve].
Qed.

Lemma CMG_pw_dsr sb sr m y : 0 < sb + sr * m ->
  is_derive (fun t => CMG_pw sb t m y) sr (CMG_dsr_term sb sr m y).
Proof.
  move=> Hs. rewrite /CMG_pw /CMG_dsr_term. auto_derive; [rsolve | field; rsolve].
Qed.

Theorem CMG_dsb_correct sb sr ms ys :
  length ms = length ys -> (forall m, In m ms -> 0 < sb + sr * m) ->
  is_derive (fun t => CMG_total t sr ms ys) sb (CMG_dsb sb sr ms ys).
Proof.
  move=> Hl Hs.
  apply is_derive_ext with
    (fun t => Rsum (map (fun p => CMG_pw t sr (fst p) (snd p)) (combine ms ys))).
  - move=> t. by rewrite CMG_total_is_sum.
  - apply (is_derive_Rsum (combine ms ys) (fun p t => CMG_pw t sr (fst p) (snd p))
             (fun p => CMG_dsb_term sb sr (fst p) (snd p))).
    move=> [m y] Hin /=. apply CMG_pw_dsb, Hs. by apply (in_combine_l _ _ _ _ Hin).
Qed.

Theorem CMG_dsr_correct sb sr ms ys :
  length ms = length ys -> (forall m, In m ms -> 0 < sb + sr * m) ->
  is_derive (fun t => CMG_total sb t ms ys) sr (CMG_dsr sb sr ms ys).
Proof.
  move=> Hl Hs.
  apply is_derive_ext with
    (fun t => Rsum (map (fun p => CMG_pw sb t (fst p) (snd p)) (combine ms ys))).
  - move=> t. by rewrite CMG_total_is_sum.
  - apply (is_derive_Rsum (combine ms ys) (fun p t => CMG_pw sb t (fst p) (snd p))
             (fun p => CMG_dsr_term sb sr (fst p) (snd p))).
    move=> [m y] Hin /=. apply CMG_pw_dsr, Hs. by apply (in_combine_l _ _ _ _ Hin).
Qed.

(* ------------------------------------------------------------------------------------------ *)
(* Multiplicative Gaussian error model = the previous one with sb = 0                          *)
(* ------------------------------------------------------------------------------------------ *)

Lemma MG_pw_CMG sr m y : MG_pw sr m y = CMG_pw 0 sr m y.
Proof. by rewrite /MG_pw /CMG_pw Rplus_0_l. Qed.

Lemma MG_total_CMG sr ms ys : MG_total sr ms ys = CMG_total 0 sr ms ys.
Proof.
  rewrite /MG_total /CMG_total. f_equal; [f_equal|f_equal].
  - apply Rsum_map_ext => m _. by rewrite Rplus_0_l.
  - apply Rsum_map_ext => p _. by rewrite Rplus_0_l.
Qed.

Lemma MG_dpsi_CMG sr ms ys col : MG_dpsi sr ms ys col = CMG_dpsi 0 sr ms ys col.
Proof.
  rewrite /MG_dpsi /CMG_dpsi. apply Rsum_map_ext => q _.
  by rewrite /MG_dpsi_term /CMG_dpsi_term Rplus_0_l.
Qed.

Lemma MG_dsigma_CMG sr ms ys : MG_dsigma sr ms ys = CMG_dsr 0 sr ms ys.
Proof.
  rewrite /MG_dsigma /CMG_dsr. apply Rsum_map_ext => q _.
  by rewrite /MG_dsigma_term /CMG_dsr_term Rplus_0_l.
Qed.

Theorem MG_total_is_sum sr ms ys : length ms = length ys ->
  MG_total sr ms ys = Rsum (map (fun p => MG_pw sr (fst p) (snd p)) (combine ms ys)).
Proof.
  move=> H. rewrite MG_total_CMG CMG_total_is_sum //.
  apply Rsum_map_ext => p _. by rewrite MG_pw_CMG.
Qed.

Theorem MG_density sr m y : 0 < sr * m -> exp (MG_pw sr m y) = normal_pdf (sr * m) m y.
Proof.
  move=> H. rewrite MG_pw_CMG CMG_density; last by rewrite Rplus_0_l.
  by rewrite Rplus_0_l.
Qed.

Theorem MG_dpsi_correct sr os x :
  (forall o, In o os -> 0 < sr * out o x /\ is_derive (out o) x (sens o)) ->
  is_derive (fun t => MG_total sr (outs os t) (ysof os)) x
            (MG_dpsi sr (outs os x) (ysof os) (sensof os)).
Proof.
  move=> H. rewrite MG_dpsi_CMG.
  apply is_derive_ext with (fun t => CMG_total 0 sr (outs os t) (ysof os)).
  - move=> t. by rewrite MG_total_CMG.
  - apply CMG_dpsi_correct => o Ho. case: (H o Ho) => H1 H2. split=> //. by rewrite Rplus_0_l.
Qed.

Theorem MG_dsigma_correct sr ms ys :
  length ms = length ys -> (forall m, In m ms -> 0 < sr * m) ->
  is_derive (fun t => MG_total t ms ys) sr (MG_dsigma sr ms ys).
Proof.
  move=> Hl Hs. rewrite MG_dsigma_CMG.
  apply is_derive_ext with (fun t => CMG_total 0 t ms ys).
  - move=> t. by rewrite MG_total_CMG.
  - apply CMG_dsr_correct => // m Hm. rewrite Rplus_0_l. by apply Hs.
Qed.

(* ------------------------------------------------------------------------------------------ *)
(* Log-normal error model                                                                      *)
(* ------------------------------------------------------------------------------------------ *)

Theorem LN_total_is_sum s ms ys : length ms = length ys ->
  LN_total s ms ys = Rsum (map (fun p => LN_pw s (fst p) (snd p)) (combine ms ys)).
Proof.
  elim: ms ys => [|m ms IH] [|y ys] //= H.
  - rewrite /LN_total /=. lra.
  - case: H => H. move: (IH ys H). rewrite /LN_total.
    cbn [length map combine Rsum fst snd]. rewrite S_INR => <-. rewrite /LN_pw. lra.
Qed.

(* documented density: log-normal with log-mean ln m - s^2/2 and log-sd s *)
Theorem LN_density s m y : 0 < s -> 0 < m -> 0 < y ->
  exp (LN_pw s m y) = lognormal_pdf s (ln m - s^2 / 2) y.
Proof.
  move=> Hs Hm Hy. rewrite /LN_pw /lognormal_pdf.
  have -> : - (ln2pi / 2 + ln s) - ln y - (ln m - s ^ 2 / 2 - ln y) ^ 2 / s ^ 2 / 2
            = - (ln2pi / 2) + (- ln s + (- ln y + - (ln y - (ln m - s^2/2)) ^ 2 / (2 * s^2)))
    by (field; lra).
  rewrite !exp_plus ln2pi_half !exp_Ropp !exp_ln //. field; rsolve.
Qed.

Definition LN_g (s m y : R) : R := (ln y - ln m + s^2 / 2) / s.

Lemma lognormal_pdf_phi s m y : 0 < s -> 0 < y ->
  lognormal_pdf s (ln m - s^2 / 2) y = / (s * y) * phi (LN_g s m y).
Proof.
  move=> Hs Hy. rewrite /lognormal_pdf /phi /LN_g.
  have -> : - (ln y - (ln m - s ^ 2 / 2)) ^ 2 / (2 * s ^ 2)
            = - ((ln y - ln m + s ^ 2 / 2) / s) ^ 2 / 2 by (field; lra).
  field; rsolve.
Qed.

(* mass of every interval 0 < a < b : the push-forward of phi under y = m exp(-s^2/2 + s z) *)
Theorem LN_interval_mass s m a b : 0 < s -> 0 < m -> 0 < a -> a < b ->
  is_RInt (fun y => exp (LN_pw s m y)) a b (RInt phi (LN_g s m a) (LN_g s m b)).
Proof.
  move=> Hs Hm Ha Hab.
  apply is_RInt_ext with (fun y => scal (/ (s * y)) (phi (LN_g s m y))).
  - move=> x [Hx _]. rewrite Rmin_left in Hx; try lra.
    rewrite LN_density //; try lra. rewrite lognormal_pdf_phi //; lra.
  - apply: (is_RInt_comp phi (LN_g s m) (fun y => / (s * y))).
    + move=> x _. apply cont_phi.
    + move=> x [Hx _]. rewrite Rmin_left in Hx; try lra. split.
      * rewrite /LN_g. auto_derive; [lra | field; lra].
      * apply: ex_derive_continuous. auto_derive. nra.
Qed.

(* total mass one: the intervals [m e^{-s^2/2 - s t}, m e^{-s^2/2 + s t}] exhaust (0, infinity) *)
Theorem LN_total_mass s m : 0 < s -> 0 < m ->
  is_lim (fun t => RInt (fun y => exp (LN_pw s m y))
                        (m * exp (- s^2 / 2 - s * t)) (m * exp (- s^2 / 2 + s * t))) p_infty 1.
Proof.
  move=> Hs Hm.
  apply is_lim_ext_loc with (fun t => RInt phi (- t) t).
  - exists 0 => t Ht. symmetry. apply is_RInt_unique.
    have Ea : LN_g s m (m * exp (- s^2 / 2 - s * t)) = - t.
    { rewrite /LN_g ln_mult //; last by apply exp_pos. rewrite ln_exp. field. lra. }
    have Eb : LN_g s m (m * exp (- s^2 / 2 + s * t)) = t.
    { rewrite /LN_g ln_mult //; last by apply exp_pos. rewrite ln_exp. field. lra. }
    replace (RInt phi (- t) t)
      with (RInt phi (LN_g s m (m * exp (- s^2 / 2 - s * t))) (LN_g s m (m * exp (- s^2 / 2 + s * t))))
      by (rewrite Ea Eb; reflexivity).
    apply LN_interval_mass.
    + exact Hs.
    + exact Hm.
    + apply Rmult_lt_0_compat; [exact Hm | apply exp_pos].
    + apply Rmult_lt_compat_l; [exact Hm |]. apply exp_increasing.
      have Hst : 0 < s * t by apply Rmult_lt_0_compat. lra.
  - apply phi_total_mass.
Qed.

Lemma LN_pw_dpsi s (o : obs) x : 0 < s -> 0 < out o x -> is_derive (out o) x (sens o) ->
  is_derive (fun t => LN_pw s (out o t) (yv o)) x
            (LN_err s (out o x) (yv o) / out o x * sens o / s^2).
Proof.
  move=> Hs Hm Hf. rewrite /LN_pw /LN_err. auto_derive.
  - repeat split; try (by eexists; exact Hf); rsolve.
  - replace (Derive (fun x0 : R => out o x0) x) with (sens o)
      by (symmetry; apply is_derive_unique; exact Hf).
    field; rsolve.
Qed.

Theorem LN_dpsi_correct s os x : 0 < s ->
  (forall o, In o os -> 0 < out o x /\ is_derive (out o) x (sens o)) ->
  is_derive (fun t => LN_total s (outs os t) (ysof os)) x
            (LN_dpsi s (outs os x) (ysof os) (sensof os)).
Proof.
  move=> Hs H.
  apply is_derive_ext with (fun t => Rsum (map (fun o => LN_pw s (out o t) (yv o)) os)).
  - move=> t. rewrite LN_total_is_sum; last by rewrite outs_length ysof_length.
    by rewrite (combine_outs_ys (fun p => LN_pw s (fst p) (snd p))).
  - have -> : LN_dpsi s (outs os x) (ysof os) (sensof os)
              = Rsum (map (fun o => LN_err s (out o x) (yv o) / out o x * sens o / s^2) os).
    { rewrite /LN_dpsi
        (combine3 (fun q => LN_err s (fst (fst q)) (snd (fst q)) / fst (fst q) * snd q)) /=.
      rewrite (Rsum_map_ext (fun o => LN_err s (out o x) (yv o) / out o x * sens o / s^2)
                 (fun o => (LN_err s (out o x) (yv o) / out o x * sens o) * / s^2 + 0));
        last by move=> a _; rewrite /Rdiv; ring.
      rewrite Rsum_map_affine. field; lra. }
    apply (is_derive_Rsum os (fun o t => LN_pw s (out o t) (yv o))).
    move=> o Ho. case: (H o Ho) => H1 H2. by apply LN_pw_dpsi.
Qed.

Lemma LN_pw_dsigma s m y : 0 < s ->
  is_derive (fun t => LN_pw t m y) s
            (- LN_err s m y / s + (LN_err s m y)^2 / s^3 - / s).
Proof.
  move=> Hs. rewrite /LN_pw /LN_err. auto_derive; [rsolve | field; rsolve].
Qed.

Theorem LN_dsigma_correct s ms ys : 0 < s -> length ms = length ys ->
  is_derive (fun t => LN_total t ms ys) s (LN_dsigma s ms ys).
Proof.
  move=> Hs Hl.
  apply is_derive_ext with (fun t => Rsum (map (fun p => LN_pw t (fst p) (snd p)) (combine ms ys))).
  - move=> t. by rewrite LN_total_is_sum.
  - have -> : LN_dsigma s ms ys
              = Rsum (map (fun p => - LN_err s (fst p) (snd p) / s
                                    + (LN_err s (fst p) (snd p))^2 / s^3 - / s) (combine ms ys)).
    { rewrite /LN_dsigma -(combine_length_eq ms ys Hl).
      elim: (combine ms ys) => [|p l IH]; first by (simpl; field; rsolve).
      change (length (p :: l)) with (S (length l)). rewrite S_INR.
      cbn [map Rsum]. rewrite -IH. field; rsolve. }
    apply (is_derive_Rsum (combine ms ys) (fun p t => LN_pw t (fst p) (snd p))).
    move=> [m y] _ /=. by apply LN_pw_dsigma.
Qed.

(* ------------------------------------------------------------------------------------------ *)
(* guards: non-positive scale parameters (or outputs, log-normal) score minus infinity         *)
(* ------------------------------------------------------------------------------------------ *)

Theorem G_guard s ms ys cols : s <= 0 ->
  G_ll s ms ys = NegInf /\ fst (G_S1 s ms ys cols) = NegInf /\
  G_pointwise s ms ys = map (fun _ => NegInf) ms.
Proof. move=> H. rewrite /G_ll /G_S1 /G_pointwise. by case: Rle_dec. Qed.

Theorem MG_guard sr ms ys cols : sr <= 0 ->
  MG_ll sr ms ys = NegInf /\ fst (MG_S1 sr ms ys cols) = NegInf /\
  MG_pointwise sr ms ys = map (fun _ => NegInf) ms.
Proof. move=> H. rewrite /MG_ll /MG_S1 /MG_pointwise. by case: Rle_dec. Qed.

Theorem CMG_guard_neginf sb sr ms ys cols : sb <= 0 \/ sr <= 0 ->
  CMG_ll sb sr ms ys = NegInf /\ fst (CMG_S1 sb sr ms ys cols) = NegInf /\
  CMG_pointwise sb sr ms ys = map (fun _ => NegInf) ms.
Proof.
  move=> H. have E : CMG_guard sb sr = true.
  { rewrite /CMG_guard. case: Rle_dec => // H1. case: Rle_dec => // H2. lra. }
  by rewrite /CMG_ll /CMG_S1 /CMG_pointwise E.
Qed.

Lemma any_nonpos_true ms : (exists m, In m ms /\ m <= 0) -> any_nonpos ms = true.
Proof.
  elim: ms => [|m ms IH] [x [Hin Hx]] //=. case: Rle_dec => // Hm.
  apply IH. exists x. split=> //. case: Hin => // E. subst. lra.
Qed.

Theorem LN_guard_neginf s ms ys cols : s <= 0 \/ (exists m, In m ms /\ m <= 0) ->
  LN_ll s ms ys = NegInf /\ fst (LN_S1 s ms ys cols) = NegInf /\
  LN_pointwise s ms ys = map (fun _ => NegInf) ms.
Proof.
  move=> H. have E : LN_guard s ms = true.
  { rewrite /LN_guard. case: Rle_dec => // H1. apply any_nonpos_true. case: H => // H2; lra. }
  by rewrite /LN_ll /LN_S1 /LN_pointwise E.
Qed.

(* on the support the three entry points agree: the score returned with the sensitivities is the plain
   score, and the pointwise values are the per-observation terms whose sum is the total *)
Theorem G_entry_points_agree s ms ys cols : 0 < s ->
  fst (G_S1 s ms ys cols) = G_ll s ms ys /\ G_ll s ms ys = Fin (G_total s ms ys).
Proof. move=> H. rewrite /G_S1 /G_ll. case: Rle_dec => //. lra. Qed.

Theorem MG_entry_points_agree sr ms ys cols : 0 < sr ->
  fst (MG_S1 sr ms ys cols) = MG_ll sr ms ys /\ MG_ll sr ms ys = Fin (MG_total sr ms ys).
Proof. move=> H. rewrite /MG_S1 /MG_ll. case: Rle_dec => //. lra. Qed.

Theorem CMG_entry_points_agree sb sr ms ys cols : 0 < sb -> 0 < sr ->
  fst (CMG_S1 sb sr ms ys cols) = CMG_ll sb sr ms ys /\
  CMG_ll sb sr ms ys = Fin (CMG_total sb sr ms ys).
Proof.
  move=> H1 H2. rewrite /CMG_S1 /CMG_ll /CMG_guard.
  case: Rle_dec => //; first lra. case: Rle_dec => //. lra.
Qed.

Lemma any_nonpos_false ms : (forall m, In m ms -> 0 < m) -> any_nonpos ms = false.
Proof.
  elim: ms => [|m ms IH] H //=. case: Rle_dec => Hm.
  - have := H m (or_introl eq_refl). lra.
  - apply IH => x Hx. apply H. by right.
Qed.

Theorem LN_entry_points_agree s ms ys cols : 0 < s -> (forall m, In m ms -> 0 < m) ->
  fst (LN_S1 s ms ys cols) = LN_ll s ms ys /\ LN_ll s ms ys = Fin (LN_total s ms ys).
Proof.
  move=> H1 H2. rewrite /LN_S1 /LN_ll /LN_guard.
  case: Rle_dec => //; first lra. by rewrite any_nonpos_false.
Qed.

(* ------------------------------------------------------------------------------------------ *)
(* "integrates to one": exp of the pointwise log-likelihood as a function of the measured      *)
(* value is the documented density, whose interval masses are standard-normal masses and whose *)
(* total mass is one                                                                            *)
(* ------------------------------------------------------------------------------------------ *)

Theorem G_interval_mass s m a b : 0 < s ->
  is_RInt (fun y => exp (G_pw s m y)) a b (RInt phi ((a - m) / s) ((b - m) / s)).
Proof.
  move=> Hs. apply is_RInt_ext with (normal_pdf s m).
  - move=> y _. by rewrite G_density.
  - by apply normal_interval_mass.
Qed.

Theorem G_normalised s m : 0 < s ->
  is_lim (fun b => RInt (fun y => exp (G_pw s m y)) (m - b) (m + b)) p_infty 1.
Proof.
  move=> Hs. apply is_lim_ext with (fun b => RInt (normal_pdf s m) (m - b) (m + b)).
  - move=> b. apply RInt_ext => y _. by rewrite G_density.
  - by apply normal_total_mass.
Qed.

Theorem CMG_interval_mass sb sr m a b : 0 < sb + sr * m ->
  is_RInt (fun y => exp (CMG_pw sb sr m y)) a b
          (RInt phi ((a - m) / (sb + sr * m)) ((b - m) / (sb + sr * m))).
Proof.
  move=> Hs. apply is_RInt_ext with (normal_pdf (sb + sr * m) m).
  - move=> y _. by rewrite CMG_density.
  - by apply normal_interval_mass.
Qed.

Theorem CMG_normalised sb sr m : 0 < sb + sr * m ->
  is_lim (fun b => RInt (fun y => exp (CMG_pw sb sr m y)) (m - b) (m + b)) p_infty 1.
Proof.
  move=> Hs. apply is_lim_ext with (fun b => RInt (normal_pdf (sb + sr * m) m) (m - b) (m + b)).
  - move=> b. apply RInt_ext => y _. by rewrite CMG_density.
  - by apply normal_total_mass.
Qed.

Theorem MG_normalised sr m : 0 < sr * m ->
  is_lim (fun b => RInt (fun y => exp (MG_pw sr m y)) (m - b) (m + b)) p_infty 1.
Proof.
  move=> Hs. apply is_lim_ext with (fun b => RInt (normal_pdf (sr * m) m) (m - b) (m + b)).
  - move=> b. apply RInt_ext => y _. by rewrite MG_density.
  - by apply normal_total_mass.
Qed.
