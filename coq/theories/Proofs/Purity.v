(* Proofs about Model/Purity.v. *)
From Coq Require Import List Bool String Arith Lia.
From Chi Require Import Model.Fixing Model.Mechanistic Model.Purity Proofs.Mechanistic.
Import ListNotations.

Section BufferProofs.
  Variable V : Type.

  Lemma cwrite_overwrite (b : list (bool * V)) (f' f : list V) : cwrite (overwrite b f') f = cwrite b f.
  Proof.
    revert f' f; induction b as [|[m v] t IH]; intros f' f; cbn; [reflexivity|].
    destruct m; cbn.
    - now rewrite IH.
    - destruct f' as [|x xs]; cbn; destruct f as [|y ys]; try reflexivity; now rewrite IH.
  Qed.
  Lemma overwrite_mask (b : list (bool * V)) f : map fst (overwrite b f) = map fst b.
  Proof.
    revert f; induction b as [|[m v] t IH]; intros f; cbn; [reflexivity|].
    destruct m; cbn; [now rewrite IH|]. destruct f; cbn; now rewrite IH.
  Qed.
  Lemma overwrite_fixed (b : list (bool * V)) f :
    filter (fun mv => fst mv) (overwrite b f) = filter (fun mv => fst mv) b.
  Proof.
    revert f; induction b as [|[m v] t IH]; intros f; cbn; [reflexivity|].
    destruct m; cbn; [now rewrite IH|]. destruct f; cbn; now rewrite IH.
  Qed.

  (* one evaluation changes nothing that a later evaluation, or a query of names / counts, can see *)
  Theorem eval_unobservable (s : cstate V) (f' f : list V) :
    let s' := snd (ceval s f') in
    cexpand s' f = cexpand s f /\ cfree_names s' = cfree_names s /\ cn_fixed s' = cn_fixed s.
  Proof.
    unfold ceval, cexpand, cfree_names, cn_fixed. cbn. destruct (cbuf s) as [b|]; cbn; [|repeat split].
    repeat split.
    - apply cwrite_overwrite.
    - revert b f'. induction (cnames s) as [|n ns IH]; intros [|[m v] t] f'; cbn; try reflexivity.
      destruct m; cbn; [apply IH|]. destruct f'; cbn; now rewrite IH.
    - now rewrite overwrite_fixed.
  Qed.
  (* ... and so does any sequence of evaluations *)
  Theorem evals_unobservable (s : cstate V) (history : list (list V)) (f : list V) :
    cexpand (after_evals s history) f = cexpand s f /\
    cfree_names (after_evals s history) = cfree_names s /\ cn_fixed (after_evals s history) = cn_fixed s.
  Proof.
    revert s; induction history as [|f' t IH]; intros s; [cbn; repeat split|].
    change (after_evals s (f' :: t)) with (after_evals (snd (ceval s f')) t).
    destruct (IH (snd (ceval s f'))) as (H1 & H2 & H3). destruct (eval_unobservable s f' f) as (E1 & E2 & E3).
    cbn zeta in *. rewrite H1, H2, H3. repeat split; assumption.
  Qed.
End BufferProofs.

(* the sensitivity switch: whatever was evaluated before, every entry point runs the solver with the setting it
   needs *)
Theorem switch_independent (flag flag' : bool) (o : eval_op) : switch flag o = switch flag' o.
Proof. destruct flag, flag', o; reflexivity. Qed.
Theorem switch_after_history (flag : bool) (history : list eval_op) (o : eval_op) :
  switch (flags_after flag history) o = switch flag o.
Proof. apply switch_independent. Qed.

(* the solver object: whatever calls were made on it before, after the calls of simulate() every published
   parameter is bound to this call's vector entry and the run logs this call's outputs at this call's times *)
Section SolverHistory.
  Variables (V : Type) (d : V) (plus1 : V -> V).

  Lemma last_state_reset prev rest acc :
    last_state V (prev ++ Reset :: rest) acc = last_state V (Reset :: rest) None.
  Proof. rewrite last_state_app. reflexivity. Qed.

  Lemma last_const_set_all names th n prev acc :
    In n names -> NoDup names ->
    last_const V (prev ++ set_const_calls V d names th) n acc = last_const V (set_const_calls V d names th) n None.
  Proof.
    intros I ND. rewrite last_const_app.
    destruct (In_nth _ _ EmptyString I) as [k [Hk Ek]]. rewrite <- Ek.
    now rewrite !(last_const_consts V d names th k _ ND Hk).
  Qed.

  Lemma run_of_app (a b : list (call V)) r : run_of V b = Some r -> run_of V (a ++ b) = Some r.
  Proof.
    intros H. induction a as [|c t IH]; cbn; [exact H|]. destruct c; try exact IH. now rewrite IH.
  Qed.

  Theorem simulate_forgets_history (m : sbml) (outs : list string) (th times : list V) (prev : list (call V)) i :
    NoDup (decl_states m ++ decl_consts m) -> List.length th = n_parameters m -> i < n_parameters m ->
    assigned V m (prev ++ simulate_calls V d plus1 m outs th times) (nth i (parameter_names m) EmptyString)
    = Some (nth i th d) /\
    run_of V (prev ++ simulate_calls V d plus1 m outs th times) = Some (plus1 (last times d), outs, times).
  Proof.
    intros ND L Hi. split; [|apply run_of_app, logged].
    rewrite <- (assignment V d plus1 m outs th times i ND L Hi).
    unfold assigned. destruct (index_of _ (decl_states m)) as [j|] eqn:Ej.
    - unfold simulate_calls, simulate_with. now rewrite last_state_reset.
    - unfold simulate_calls, simulate_with, set_state_calls.
      set (n := nth i (parameter_names m) EmptyString) in *.
      (* n is a constant: it is among the names this call sets *)
      assert (In n (const_names m)).
      { assert (I : In n (parameter_names m)) by (apply nth_In; now rewrite parameter_names_length).
        unfold parameter_names in I. apply in_app_or in I. destruct I as [I|I]; [|exact I].
        exfalso. assert (I' : In n (decl_states m)) by (eapply Permutation.Permutation_in; [apply state_names_perm|exact I]).
        destruct (In_nth _ _ EmptyString I') as [k [Hk Ek]]. rewrite <- Ek in Ej.
        rewrite index_of_nth in Ej; [discriminate|eapply NoDup_app_l; exact ND|exact Hk]. }
      assert (NDc : NoDup (const_names m)).
      { eapply Permutation.Permutation_NoDup; [symmetry; apply const_names_perm|]. eapply NoDup_app_r; exact ND. }
      cbn [app]. rewrite !last_const_app. cbn [last_const].
      rewrite !(last_const_app V (set_const_calls V d (const_names m) (skipn (n_states m) th))). cbn [last_const].
      destruct (In_nth _ _ EmptyString H) as [k [Hk Ek]]. rewrite <- Ek.
      now rewrite !(last_const_consts V d (const_names m) _ k _ NDc Hk).
  Qed.
End SolverHistory.

(* ======== whole transcripts of histories ======== *)
(* the whole transcript of a history: what each evaluation handed to the wrapped object *)
Fixpoint transcript {V} (s : cstate V) (history : list (list V)) : list (option (list V)) :=
  match history with
  | [] => []
  | f :: t => fst (ceval s f) :: transcript (snd (ceval s f)) t
  end.
(* ... is what a fresh copy of the initial object would have handed over, evaluation by evaluation: no evaluation
   can see which ones preceded it, in any interleaving *)
Theorem transcript_pure {V} (s : cstate V) history : transcript s history = map (cexpand s) history.
Proof.
  revert s. induction history as [|f t IH]; intros s; cbn [transcript map]; [reflexivity|].
  rewrite IH. f_equal. apply map_ext. intros g.
  destruct (evals_unobservable V s [f] g) as [H _]. exact H.
Qed.
(* the setting an entry point runs with is a function of the entry point alone *)
Theorem switch_is_entry_point flag o :
  switch flag o = match o with ValueWithSensitivities => true | _ => false end.
Proof. destruct flag, o; reflexivity. Qed.
(* the settings seen along a whole history of entry points *)
Fixpoint settings (flag : bool) (history : list eval_op) : list bool :=
  match history with [] => [] | o :: t => switch flag o :: settings (switch flag o) t end.
Theorem settings_pure flag history :
  settings flag history = map (fun o => match o with ValueWithSensitivities => true | _ => false end) history.
Proof.
  revert flag. induction history as [|o t IH]; intros flag; cbn [settings map]; [reflexivity|].
  now rewrite IH, switch_is_entry_point.
Qed.
