(* Proofs about Model/Dosing.v (C10). *)
From Coq Require Import ZArith List Bool Lia ssreflect.
From Chi Require Import Model.Dosing.
Import ListNotations.

(* ------------------------------------------------------------------------------------------ *)
(* discrete part: the regimen table                                                           *)
(* ------------------------------------------------------------------------------------------ *)
Open Scope Z_scope.

(* which pulses an event delivers *)
Definition delivers (e : event) (k : nat) : Prop :=
  if ev_per e =? 0 then k = O else match ev_mult e with O => True | n => (k < n)%nat end.

Theorem table_code_is_spec e f : 0 <= ev_per e -> table_of_event e (Some f) = table_spec e f.
Proof.
  move=> Hp. rewrite /table_of_event /table_spec /pulse_times /n_pulses.
  case: (Z.ltb_spec f (ev_st e)) => Hb.
  - (* the event starts after the final time: nothing is listed *)
    case: (Z.eqb_spec (ev_per e) 0) => Hper.
    + cbn [seq map filter]. have -> : (ev_st e + Z.of_nat 0 * ev_per e <=? f) = false by apply Z.leb_gt; lia.
      reflexivity.
    + case: (ev_mult e) => [|n]; first by cbn.
      rewrite (_ : filter _ _ = []) //.
      elim: (seq 0 (S n)) => [|k l IH] //=. rewrite IH.
      have Hk0 := Nat2Z.is_nonneg k.
      have Hm := Z.mul_nonneg_nonneg _ _ Hk0 Hp.
      have -> : (ev_st e + Z.of_nat k * ev_per e <=? f) = false by apply Z.leb_gt; lia.
      reflexivity.
  - case: (Z.eqb_spec (ev_per e) 0) => Hper.
    + cbn [seq map filter]. rewrite Hper Z.mul_0_r Z.add_0_r.
      have -> : (ev_st e <=? f) = true by apply Z.leb_le; lia. reflexivity.
    + case: (ev_mult e) => [|n] //.
      have -> : Z.abs (f - ev_st e) = f - ev_st e by apply Z.abs_eq; lia.
      reflexivity.
Qed.

Lemma n_pulses_covers e f k : 0 < ev_per e -> ev_mult e = O ->
  ev_st e + Z.of_nat k * ev_per e <= f -> (k < n_pulses e f)%nat.
Proof.
  move=> Hp Hm Hk. rewrite /n_pulses Hm.
  have -> : (ev_per e =? 0) = false by apply Z.eqb_neq; lia.
  have Hs : ev_st e <= f by nia.
  have -> : (f <? ev_st e) = false by apply Z.ltb_ge.
  have H : Z.of_nat k <= (f - ev_st e) / ev_per e by apply Z.div_le_lower_bound; lia.
  have H0 : 0 <= (f - ev_st e) / ev_per e by apply Z.div_pos; lia.
  lia.
Qed.

(* the table lists EXACTLY the dose events that the regimen applies up to the final time *)
Theorem table_spec_exact e f t d a : 0 <= ev_per e ->
  In (t, d, a) (table_spec e f) <->
  d = ev_dur e /\ a = ev_amt e /\ exists k, delivers e k /\ t = ev_st e + Z.of_nat k * ev_per e /\ t <= f.
Proof.
  move=> Hp. rewrite /table_spec in_map_iff. split.
  - move=> [t' [[<- <- <-] Hin]]. apply filter_In in Hin. case: Hin => Hin Hle.
    apply Z.leb_le in Hle. rewrite /pulse_times in_map_iff in Hin. case: Hin => k [Hk Hseq].
    apply in_seq in Hseq. do 2 split=> //. exists k. split; last by split.
    rewrite /delivers. rewrite /n_pulses in Hseq. case: (Z.eqb_spec (ev_per e) 0) Hseq => Hper Hseq; first lia.
    case: (ev_mult e) Hseq => [|n] Hseq //. lia.
  - move=> [-> [-> [k [Hd [Ht Hle]]]]]. exists t. split=> //. apply filter_In. split; last by apply Z.leb_le.
    rewrite /pulse_times in_map_iff. exists k. split=> //. apply in_seq. split; first lia. cbn.
    rewrite /delivers in Hd. rewrite /n_pulses. case: (Z.eqb_spec (ev_per e) 0) Hd => Hper Hd; first lia.
    case E: (ev_mult e) Hd => [|n] Hd; last lia.
    have := n_pulses_covers e f k ltac:(lia) E ltac:(lia). rewrite /n_pulses E.
    by have -> : (ev_per e =? 0) = false by apply Z.eqb_neq.
Qed.

(* chi's translation of (dose, start, duration, period, num) *)
Theorem regimen_event_delivers dose s d p num k :
  delivers (regimen_event dose s d p num) k <->
  match p with
  | None => k = O
  | Some 0 => k = O
  | Some _ => match num with None => True | Some O => True | Some n => (k < n)%nat end
  end.
Proof.
  rewrite /delivers /regimen_event. case: p => [p|] /=; last by [].
  case: (Z.eqb_spec p 0) => [->|Hp] //. case: p Hp => // q _; by case: num => [[|n]|].
Qed.

(* a dataset's dose rows are reproduced one to one (single events, bolus default for missing durations) *)
Theorem dataset_table bolus rows :
  table (events_of_rows bolus rows) None
  = map (fun r => (fst (fst r), match snd r with Some d => d | None => bolus end, snd (fst r))) rows.
Proof.
  rewrite /table /events_of_rows map_map. elim: rows => [|r rows IH] //=. by rewrite IH.
Qed.

