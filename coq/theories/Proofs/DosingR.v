(* Proofs about the real-valued part of Model/Dosing.v (C10): delivered amount = integral of the dose rate. *)
From Coq Require Import Reals Lra List ssreflect.
From Coquelicot Require Import Coquelicot.
From Chi Require Import Model.Dosing.
Import ListNotations.
Open Scope R_scope.
(* ------------------------------------------------------------------------------------------ *)
(* real-valued part: delivered amount = integral of the dose rate                             *)
(* ------------------------------------------------------------------------------------------ *)

Lemma is_RInt_zero_on f a b : a <= b -> (forall t, a < t < b -> f t = 0) -> is_RInt f a b 0.
Proof.
  intros Hab H. apply is_RInt_ext with (fun _ => 0).
  - intros t Ht. rewrite Rmin_left in Ht; try lra. rewrite Rmax_right in Ht; try lra. symmetry. now apply H.
  - evar_last; [apply: is_RInt_const | rewrite /scal /= /mult /=; ring].
Qed.

Lemma is_RInt_const_on f a b c : a <= b -> (forall t, a < t < b -> f t = c) -> is_RInt f a b ((b - a) * c).
Proof.
  intros Hab H. apply is_RInt_ext with (fun _ => c).
  - intros t Ht. rewrite Rmin_left in Ht; try lra. rewrite Rmax_right in Ht; try lra. symmetry. now apply H.
  - evar_last; [apply: is_RInt_const | rewrite /scal /= /mult /=; ring].
Qed.

Ltac case_le := repeat (match goal with |- context [Rle_dec ?a ?b] => destruct (Rle_dec a b) end).
Ltac minmax := unfold Rmin; case_le; unfold Rmax; case_le; rewrite /plus /=; try lra; try ring; try (exfalso; lra); try nra.

Theorem pulse_integral r s d T : 0 <= s -> 0 < d -> 0 <= T ->
  is_RInt (pulse r s d) 0 T (r * overlap s d T).
Proof.
  intros Hs Hd HT. unfold overlap.
  destruct (Rle_dec T s) as [H1|H1].
  - assert (E : Rmax 0 (Rmin T (s + d) - s) = 0) by minmax. rewrite E Rmult_0_r.
    apply is_RInt_zero_on; [lra|]. intros t Ht. unfold pulse. destruct (Rle_dec s t); [lra|reflexivity].
  - apply Rnot_le_lt in H1.
    destruct (Rle_dec T (s + d)) as [H2|H2].
    + assert (E : Rmax 0 (Rmin T (s + d) - s) = T - s) by minmax. rewrite E.
      replace (r * _) with (plus 0 ((T - s) * r)) by (rewrite /plus /=; ring).
      apply: (is_RInt_Chasles _ 0 s T).
      * apply is_RInt_zero_on; [lra|]. intros t Ht. unfold pulse. destruct (Rle_dec s t); [lra|reflexivity].
      * apply is_RInt_const_on; [lra|]. intros t Ht. unfold pulse. destruct (Rle_dec s t); [|lra].
        destruct (Rlt_dec t (s + d)); [reflexivity|lra].
    + apply Rnot_le_lt in H2.
      assert (E : Rmax 0 (Rmin T (s + d) - s) = d) by minmax. rewrite E.
      replace (r * _) with (plus (plus 0 ((s + d - s) * r)) 0) by (rewrite /plus /=; ring).
      apply: (is_RInt_Chasles _ 0 (s + d) T).
      * apply: (is_RInt_Chasles _ 0 s (s + d)).
        -- apply is_RInt_zero_on; [lra|]. intros t Ht. unfold pulse. destruct (Rle_dec s t); [lra|reflexivity].
        -- apply is_RInt_const_on; [lra|]. intros t Ht. unfold pulse. destruct (Rle_dec s t); [|lra].
           destruct (Rlt_dec t (s + d)); [reflexivity|lra].
      * apply is_RInt_zero_on; [lra|]. intros t Ht. unfold pulse. destruct (Rle_dec s t); [|reflexivity].
        destruct (Rlt_dec t (s + d)); [lra|reflexivity].
Qed.

Definition pulses_ok (ps : list (R * R * R)) : Prop :=
  List.Forall (fun p => 0 <= snd (fst p) /\ 0 < snd p) ps.

(* the cumulative input up to ANY time T is the sum over the scheduled pulses of rate x elapsed part *)
Theorem pace_integral ps T : pulses_ok ps -> 0 <= T -> is_RInt (pace ps) 0 T (delivered ps T).
Proof.
  move=> Hok HT. elim: ps Hok => [|[[r s] d] ps IH] Hok.
  - cbn [pace delivered]. evar_last; [apply: is_RInt_const | rewrite /scal /= /mult /=; ring].
  - inversion Hok as [|? ? [H1 H2] Hok']; subst. cbn [pace delivered fst snd] in *.
    apply: is_RInt_plus; [by apply pulse_integral | by apply IH].
Qed.

Lemma overlap_full s d T : 0 <= d -> s + d <= T -> overlap s d T = d.
Proof. move=> Hd H. rewrite /overlap. minmax. Qed.
Lemma overlap_none s d T : 0 <= d -> T <= s -> overlap s d T = 0.
Proof. move=> Hd H. rewrite /overlap. minmax. Qed.

(* a regimen of n doses: outside the infusion windows the delivered amount is dose x (number of doses
   completed), i.e. the sum of the doses scheduled up to then *)
Fixpoint completed (s d p : R) (n : nat) (T : R) : nat :=
  match n with
  | O => O
  | S k => ((match Rle_dec (s + d) T with left _ => 1 | right _ => 0 end) + completed (s + p) d p k T)%nat
  end.
Fixpoint outside (s d p : R) (n : nat) (T : R) : Prop :=
  match n with O => True | S k => (T <= s \/ s + d <= T) /\ outside (s + p) d p k T end.

Theorem delivered_regimen dose s d p n T : 0 < d -> outside s d p n T ->
  delivered (regimen_pulses dose s d p n) T = dose * INR (completed s d p n T).
Proof.
  move=> Hd. elim: n s => [|n IH] s; cbn [regimen_pulses delivered completed outside fst snd].
  - move=> _. rewrite /=. ring.
  - move=> [Hout Hrest]. rewrite (IH _ Hrest) plus_INR. case: Rle_dec => Hc.
    + rewrite overlap_full //; try lra. rewrite /=. field. lra.
    + case: Hout => Hout; last lra. rewrite overlap_none //; try lra. rewrite /=. ring.
Qed.

Lemma regimen_pulses_ok dose s d p n : 0 <= s -> 0 < d -> 0 <= p -> pulses_ok (regimen_pulses dose s d p n).
Proof.
  move=> Hs Hd Hp. elim: n s Hs => [|n IH] s Hs; cbn [regimen_pulses]; constructor.
  - cbn. lra.
  - apply IH. lra.
Qed.

(* rate: dose/duration during each scheduled interval, none otherwise (single pulse) *)
Theorem pulse_rate dose s d t : 0 < d ->
  (s <= t < s + d -> pulse (dose / d) s d t = dose / d) /\
  (t < s \/ s + d <= t -> pulse (dose / d) s d t = 0).
Proof.
  move=> Hd. rewrite /pulse. split=> H.
  - case: Rle_dec => H1; last lra. case: Rlt_dec => H2 //. lra.
  - case: Rle_dec => H1 //. case: Rlt_dec => H2 //. lra.
Qed.

(* ======== monotone, bounded, nothing before the first pulse, everything after the last ======== *)
(* ---------------- the delivered amount never decreases and never exceeds what was prescribed ---------- *)
Lemma overlap_bounds s d T : 0 <= d -> 0 <= overlap s d T <= d.
Proof.
  move=> Hd. rewrite /overlap /Rmin. destruct (Rle_dec T (s + d)); rewrite /Rmax;
  repeat match goal with |- context [Rle_dec ?a ?b] => destruct (Rle_dec a b) end; lra.
Qed.
Lemma overlap_mono s d T1 T2 : T1 <= T2 -> overlap s d T1 <= overlap s d T2.
Proof.
  move=> H. rewrite /overlap /Rmin. destruct (Rle_dec T1 (s + d)), (Rle_dec T2 (s + d)); rewrite /Rmax;
  repeat match goal with |- context [Rle_dec ?a ?b] => destruct (Rle_dec a b) end; lra.
Qed.
Definition rates_nonneg (ps : list (R * R * R)) : Prop := List.Forall (fun p => 0 <= fst (fst p)) ps.
Fixpoint prescribed (ps : list (R * R * R)) : R :=
  match ps with [] => 0 | p :: r => fst (fst p) * snd p + prescribed r end.
Theorem delivered_mono ps T1 T2 : rates_nonneg ps -> T1 <= T2 -> delivered ps T1 <= delivered ps T2.
Proof.
  move=> Hr HT. elim: ps Hr => [|p r IH] Hr /=; first lra.
  inversion Hr as [|? ? Hp Hr']; subst.
  have H := overlap_mono (snd (fst p)) (snd p) _ _ HT. have := IH Hr'. nra.
Qed.
Theorem delivered_bounded ps T : rates_nonneg ps -> pulses_ok ps -> 0 <= delivered ps T <= prescribed ps.
Proof.
  move=> Hr Hok. elim: ps Hr Hok => [|p r IH] Hr Hok /=; first lra.
  inversion Hr as [|? ? Hp Hr']; subst. inversion Hok as [|? ? [_ Hd] Hok']; subst.
  have [H0 H1] := overlap_bounds (snd (fst p)) (snd p) T (Rlt_le _ _ Hd). have := IH Hr' Hok'. nra.
Qed.
(* before the first pulse nothing has been delivered; after the last one everything has *)
Theorem delivered_before ps T : pulses_ok ps -> List.Forall (fun p => T <= snd (fst p)) ps -> delivered ps T = 0.
Proof.
  move=> Hok. elim: ps Hok => [|p r IH] Hok Hb /=; first reflexivity.
  inversion Hok as [|? ? [_ Hd] Hok']; subst. inversion Hb as [|? ? Hp Hb']; subst.
  rewrite (overlap_none _ _ _ (Rlt_le _ _ Hd) Hp) (IH Hok' Hb'). ring.
Qed.
Theorem delivered_after ps T : pulses_ok ps -> List.Forall (fun p => snd (fst p) + snd p <= T) ps ->
  delivered ps T = prescribed ps.
Proof.
  move=> Hok. elim: ps Hok => [|p r IH] Hok Hb /=; first reflexivity.
  inversion Hok as [|? ? [_ Hd] Hok']; subst. inversion Hb as [|? ? Hp Hb']; subst.
  by rewrite (overlap_full _ _ _ (Rlt_le _ _ Hd) Hp) (IH Hok' Hb').
Qed.
Lemma prescribed_regimen dose s d p n : 0 < d -> prescribed (regimen_pulses dose s d p n) = dose * INR n.
Proof.
  move=> Hd. elim: n s => [|k IH] s; first by rewrite /=; ring.
  rewrite S_INR. cbn [regimen_pulses prescribed fst snd]. rewrite IH. field. lra.
Qed.
