(* Non-vacuity: concrete, non-trivial instances that satisfy the hypotheses of the property theorems of the
   bookkeeping models (the theorems about real-valued models have only sign hypotheses such as 0 < sigma). *)
From Coq Require Import List Bool String Arith ZArith QArith Lia.
From Chi Require Import Model.Mechanistic Model.Config Model.Inference Model.Seeds Model.Problem
     Proofs.Mechanistic Proofs.Config Proofs.Inference Proofs.Seeds.
Import ListNotations.
Local Open Scope string_scope.

Ltac nodup_strings := repeat (constructor; [cbn; intuition discriminate|]); constructor.

(* C09 / C19: a model whose declaration order differs from the alphabetical order in both blocks *)
Definition ex_model : sbml :=
  {| decl_states := ["global.tumour_volume"; "central.drug_amount"; "dose.drug_amount"];
     decl_consts := ["global.lambda"; "central.size"] |}.
Example ex_model_nodup : NoDup (decl_states ex_model ++ decl_consts ex_model).
Proof. cbn. nodup_strings. Qed.
Example ex_model_order : original_order ex_model = [2; 0; 1]%nat /\
  parameter_names ex_model = ["central.drug_amount"; "dose.drug_amount"; "global.tumour_volume"; "central.size"; "global.lambda"].
Proof. split; vm_compute; reflexivity. Qed.
Example ex_model_assignment :
  map (assigned Z ex_model (simulate_calls Z 0%Z (fun t => (t + 1)%Z) ex_model ["central.drug_amount"] [10; 20; 30; 40; 50]%Z [1; 2]%Z))
      (parameter_names ex_model)
  = [Some 10; Some 20; Some 30; Some 40; Some 50]%Z.
Proof. vm_compute. reflexivity. Qed.

(* C11: a history that exercises every kind of call ends in a consistent state that is its own configuration's
   realisation; variant: the dose compartment appears for indirect administration *)
Definition ex_variant (a : adm) : sbml :=
  match a with
  | Some (_, false) => {| decl_states := ["central.drug_amount"; "dose.drug_amount"];
                         decl_consts := ["central.size"; "dose.absorption_rate"] |}
  | _ => {| decl_states := ["central.drug_amount"]; decl_consts := ["central.size"] |}
  end.
Definition ex_history : list (op nat) :=
  [SetAdmin nat "central" false; SetRegimen nat 1%nat; EnableSens nat true None;
   RenameParams nat [("central.size", "V")]; SetOutputs nat ["central.drug_amount"]; Copy nat;
   SetAdmin nat "central" true; EnableSens nat true (Some ["central.size"])].
Definition ex_final : pk nat :=
  run ex_variant (fun _ => ["central.drug_amount"; "central.drug_concentration"]) (fun c => String.eqb c "central")
      ex_history (Config.init ex_variant ["central.drug_concentration"]).
Example ex_final_observed :
  o_parameters nat (observe ex_variant ex_final) = ["central.drug_amount"; "central.size"] /\
  o_regimen nat (observe ex_variant ex_final) = Some 1%nat /\
  o_sim_protocol nat (observe ex_variant ex_final) = Some 1%nat /\
  o_sim_sens nat (observe ex_variant ex_final) = Some (["central.drug_amount"], ["central.size"]).
Proof. vm_compute. repeat split. Qed.
Example ex_final_is_config : conc ex_variant (cfg_of ex_final) = ex_final.
Proof. apply state_is_config. apply run_consistent, init_consistent. Qed.

(* C18: two individuals, two bottom-level and three population-level parameters *)
Example ex_layout_nodup : NoDup (["p0"; "Sigma"] ++ ["Mean p0"; "Std. p0"; "Pooled Sigma"]).
Proof. cbn. nodup_strings. Qed.
Example ex_layout_dataset :
  Inference.lookup Z "Sigma" (format_draw Z 0%Z (layout_names ["p0"; "Sigma"] ["Mean p0"; "Std. p0"; "Pooled Sigma"] 2)
                                ["Mean p0"; "Std. p0"; "Pooled Sigma"] [11; 12; 21; 22; 31; 32; 33]%Z)
  = Some (PerIndividual [12; 22]%Z).
Proof. vm_compute. reflexivity. Qed.

(* C16: three sub-samplers fed from one generator *)
Example ex_plan : fst (shared_plan (IntSeed 7) [2; 3; 1]%nat)
  = [[(7, 0); (7, 1)]; [(7, 2); (7, 3); (7, 4)]; [(7, 5)]]%nat.
Proof. vm_compute. reflexivity. Qed.

(* C14: rows of two interleaved individuals with a missing value, a junk observable and two dose rows *)
Definition ex_rows : list row :=
  [ {| r_id := "b"; r_time := Some (1#1)%Q; r_obs := Some "Conc"; r_value := Some (3#2)%Q; r_dose := None; r_dur := None |};
    {| r_id := "a"; r_time := Some (0#1)%Q; r_obs := None; r_value := None; r_dose := Some (2#1)%Q; r_dur := None |};
    {| r_id := "b"; r_time := Some (2#1)%Q; r_obs := Some "Junk"; r_value := Some (9#1)%Q; r_dose := None; r_dur := None |};
    {| r_id := "a"; r_time := Some (1#1)%Q; r_obs := Some "Conc"; r_value := None; r_dose := None; r_dur := None |};
    {| r_id := "a"; r_time := Some (2#1)%Q; r_obs := Some "Conc"; r_value := Some (5#4)%Q; r_dose := None; r_dur := None |};
    {| r_id := "a"; r_time := Some (3#1)%Q; r_obs := None; r_value := None; r_dose := Some (1#1)%Q; r_dur := Some (1#2)%Q |} ].
Example ex_routed : ids ex_rows = ["b"; "a"] /\
  measurements ex_rows "a" "Conc" = [((2#1)%Q, (5#4)%Q)] /\ List.length (regimen ex_rows "a") = 2%nat /\
  regimen ex_rows "b" = [].
Proof. vm_compute. repeat split. Qed.
