(* Proofs about Model/Config.v: the object state is a function of its configuration after every history. *)
From Coq Require Import List Bool String Arith Lia.
From Chi Require Import Model.Mechanistic Model.Config Proofs.Mechanistic.
Import ListNotations.

Lemma fst_identity_map l : map fst (identity_map l) = l.
Proof. unfold identity_map. rewrite map_map. cbn. apply map_id. Qed.
Lemma fst_rename d m : map fst (rename d m) = map fst m.
Proof.
  unfold rename. rewrite map_map. apply map_ext. intros [k v]. cbn. now destruct (slookup v d).
Qed.
Lemma combine_fst_snd (m : smap) : combine (map fst m) (map snd m) = m.
Proof. induction m as [|[k v] t IH]; cbn; [reflexivity|]. now rewrite IH. Qed.

Section ConfigProofs.
  Variable P : Type.
  Variable variant : adm -> sbml.
  Variable loggable : adm -> list string.
  Variable has_comp : string -> bool.

  Notation step := (step variant loggable has_comp).
  Notation run := (run variant loggable has_comp).
  Notation Consistent := (@Consistent P variant).

  Lemma init_consistent outs0 : Consistent (init variant outs0).
  Proof.
    unfold Config.Consistent, init. cbn. repeat split; try reflexivity; apply fst_identity_map.
  Qed.

  Lemma fresh_sim_consistent s : Consistent s -> Consistent (fresh_sim s).
  Proof.
    unfold Config.Consistent, fresh_sim. cbn. intros (H1 & H2 & H3 & H4 & H5 & H6 & H7).
    repeat split; assumption.
  Qed.
  Lemma disable_sens_consistent s : Consistent s -> Consistent (disable_sens s).
  Proof. unfold disable_sens. destruct (has_sens s); [apply fresh_sim_consistent|trivial]. Qed.

  Theorem step_consistent s o : Consistent s -> Consistent (fst (step s o)).
  Proof.
    intros C. destruct o as [c direct|r|l|d|d|b sel|]; cbn [Config.step].
    - destruct (has_comp c); cbn [fst]; [|exact C].
      unfold Config.Consistent. cbn. repeat split; try reflexivity; apply fst_identity_map.
    - destruct (admin s) eqn:Ea; cbn [fst]; [|exact C].
      destruct C as (H1 & H2 & H3 & H4 & H5 & H6 & H7).
      unfold Config.Consistent. cbn. rewrite Ea in *. repeat split; assumption.
    - destruct (forallb _ _); cbn [fst]; [|exact C].
      destruct C as (H1 & H2 & H3 & H4 & H5 & H6 & H7).
      unfold disable_sens. cbn [has_sens].
      destruct (has_sens s) eqn:Eh.
      + unfold Config.Consistent, fresh_sim. cbn. repeat split; try assumption.
        rewrite map_map. cbn. apply map_id.
      + unfold Config.Consistent. cbn. repeat split; try assumption.
        * rewrite map_map. cbn. apply map_id.
        * destruct (sim_sens s) as [[o rq]|]; [|assumption]. destruct H7 as [_ H7]. congruence.
    - destruct (rename_ok d (pmap s)); cbn [fst]; [|exact C].
      destruct C as (H1 & H2 & H3 & H4 & H5 & H6 & H7).
      unfold Config.Consistent. cbn. repeat split; try assumption. now rewrite fst_rename.
    - destruct (rename_ok d (omap s)); cbn [fst]; [|exact C].
      destruct C as (H1 & H2 & H3 & H4 & H5 & H6 & H7).
      unfold Config.Consistent. cbn. repeat split; try assumption. now rewrite fst_rename.
    - destruct b.
      + destruct (sens_request _ _ _) as [|x req]; cbn [fst]; [exact C|].
        destruct C as (H1 & H2 & H3 & H4 & H5 & H6 & H7).
        unfold Config.Consistent. cbn. repeat split; assumption.
      + cbn [fst]. now apply disable_sens_consistent.
    - cbn [fst]. now apply fresh_sim_consistent.
  Qed.

  (* (1) after every history the object is consistent *)
  Theorem run_consistent (ops : list (op P)) s : Consistent s -> Consistent (run ops s).
  Proof.
    revert s; induction ops as [|o t IH]; intros s C; cbn; [exact C|]. apply IH. now apply step_consistent.
  Qed.

  (* (2) a consistent object is the one realisation of its configuration *)
  Theorem state_is_config s : Consistent s -> conc variant (cfg_of s) = s.
  Proof.
    intros (H1 & H2 & H3 & H4 & H5 & H6 & H7). destruct s as [a rg mv tb pm ou om sv sp ss hs].
    cbn in *. subst mv tb sv sp ou. unfold conc, cfg_of. cbn.
    rewrite <- H5. unfold values. rewrite !combine_fst_snd.
    f_equal.
    - destruct ss as [[o rq]|]; cbn; [|reflexivity]. now destruct H7 as [-> _].
    - destruct ss as [[o rq]|]; cbn; [now destruct H7|exact (eq_sym H7)].
  Qed.

  (* (3) hence two objects with the same configuration are the same object state: they answer every query and
     react to every further call identically, whatever their histories *)
  Theorem same_config_same_state s1 s2 :
    Consistent s1 -> Consistent s2 -> cfg_of s1 = cfg_of s2 -> s1 = s2.
  Proof. intros C1 C2 E. rewrite <- (state_is_config s1 C1), <- (state_is_config s2 C2). now rewrite E. Qed.

  Theorem history_independent (ops1 ops2 : list (op P)) outs0 (rest : list (op P)) :
    cfg_of (run ops1 (init variant outs0)) = cfg_of (run ops2 (init variant outs0)) ->
    observe variant (run rest (run ops1 (init variant outs0)))
    = observe variant (run rest (run ops2 (init variant outs0))).
  Proof.
    intros E. f_equal. f_equal.
    apply same_config_same_state; try (apply run_consistent, init_consistent). exact E.
  Qed.

  (* (4) the regimen reported is the one simulations apply, on the model of the reported administration, with the
     name tables of that model *)
  Theorem reported_is_applied (ops : list (op P)) outs0 :
    let s := run ops (init variant outs0) in
    sim_protocol s = regimen s /\ sim_v s = admin s /\ tables s = admin s.
  Proof.
    cbn zeta. destruct (run_consistent ops _ (init_consistent outs0)) as (H1 & H2 & H3 & H4 & _).
    repeat split; assumption.
  Qed.

  (* (5) copy: same configuration except that sensitivities are off; identical when they were off *)
  Theorem copy_config s :
    Consistent s ->
    let c := fst (step s (Copy P)) in
    Consistent c /\
    cfg_of c = {| c_admin := admin s; c_regimen := regimen s; c_pnames := values (pmap s); c_outs := outs s;
                  c_onames := values (omap s); c_sens := None |} /\
    (has_sens s = false -> c = s).
  Proof.
    intros C. cbn. split; [now apply fresh_sim_consistent|]. split; [reflexivity|].
    intros Hh. destruct C as (H1 & H2 & H3 & H4 & H5 & H6 & H7).
    destruct s as [a rg mv tb pm ou om sv sp ss hs]. cbn in *. subst.
    unfold fresh_sim. cbn. f_equal.
    destruct ss as [[o rq]|]; [destruct H7; congruence|reflexivity].
  Qed.

  (* parameters() and n_parameters() of a consistent object: the displayed names, one per published parameter of
     the model of the reported administration *)
  Lemma slookup_map_fst (m : smap) :
    NoDup (map fst m) ->
    map (fun n => match slookup n m with Some v => v | None => n end) (map fst m) = values m.
  Proof.
    induction m as [|[k v] t IH]; cbn; intros ND; [reflexivity|].
    rewrite String.eqb_refl. inversion ND as [|? ? Hk ND']; subst. unfold values in *. cbn. f_equal.
    rewrite <- (IH ND'). apply map_ext_in. intros n I.
    destruct (String.eqb n k) eqn:E; [|reflexivity].
    apply String.eqb_eq in E. subst. contradiction.
  Qed.
  Theorem observed_names s :
    Consistent s -> NoDup (parameter_names (variant (admin s))) -> NoDup (outs s) ->
    o_parameters P (observe variant s) = values (pmap s) /\
    List.length (o_parameters P (observe variant s)) = o_n_parameters P (observe variant s) /\
    o_outputs P (observe variant s) = values (omap s).
  Proof.
    intros (H1 & H2 & H3 & H4 & H5 & H6 & H7) NDp NDo. unfold observe. cbn.
    rewrite H2. rewrite <- H5 in *. rewrite <- H6 in *.
    rewrite !slookup_map_fst by assumption. repeat split.
    unfold values. rewrite map_length. rewrite <- (map_length fst). rewrite H5.
    apply parameter_names_length.
  Qed.
End ConfigProofs.

(* what simulate() does on a consistent object: the calls of C09's simulate_calls for the model of the reported
   administration, sent to a solver built from that model carrying the reported regimen *)
Section Simulation.
  Variables (P V : Type) (d : V) (plus1 : V -> V).
  Variable variant : adm -> sbml.
  Theorem simulation_of_config (s : pk P) (th ts : list V) :
    Consistent variant s ->
    let o := observe variant s in
    simulate_with V d plus1 (o_order P o) (o_consts P o) (o_n_states P o) (o_logged P o) th ts
    = simulate_calls V d plus1 (variant (admin s)) (outs s) th ts /\
    o_sim_model P o = admin s /\ o_sim_protocol P o = regimen s /\ o_regimen P o = regimen s.
  Proof.
    intros (H1 & H2 & H3 & H4 & _). cbn. rewrite H2. repeat split; assumption.
  Qed.
End Simulation.

(* ---------------- a fresh model with the net configuration ---------------- *)
Lemma replace_first_same x l : replace_first x x l = l.
Proof.
  induction l as [|y t IH]; cbn; [reflexivity|].
  destruct (String.eqb y x) eqn:E; [apply String.eqb_eq in E; now subst|now rewrite IH].
Qed.
Lemma translate_identity l0 l : translate (identity_map l0) l = l.
Proof.
  unfold translate, identity_map. revert l. induction l0 as [|x t IH]; intros l; cbn; [reflexivity|].
  rewrite replace_first_same. apply IH.
Qed.
Lemma values_identity l : values (identity_map l) = l.
Proof. unfold values, identity_map. rewrite map_map. cbn. apply map_id. Qed.
Lemma slookup_identity n l : match slookup n (identity_map l) with Some v => v | None => n end = n.
Proof.
  induction l as [|x t IH]; cbn; [reflexivity|].
  destruct (String.eqb n x) eqn:E; [apply String.eqb_eq in E; now subst|exact IH].
Qed.

Section Canon.
  Variable P : Type.
  Variable variant : adm -> sbml.
  Variable loggable : adm -> list string.
  Variable has_comp : string -> bool.

  (* the calls that apply a net configuration (without renaming and sensitivities) to a fresh model *)
  Definition canon (a : adm) (r : option P) (sel : list string) : list (op P) :=
    match a with
    | Some (c, direct) =>
      SetAdmin P c direct :: (match r with Some p => [SetRegimen P p] | None => [] end) ++ [SetOutputs P sel]
    | None => [SetOutputs P sel]
    end.

  Theorem canon_reaches (a : adm) (r : option P) (sel sel0 : list string) :
    (forall c d, a = Some (c, d) -> has_comp c = true) ->
    forallb (fun n => mem n (loggable a)) sel = true ->
    cfg_of (run variant loggable has_comp (canon a r sel) (init variant sel0))
    = {| c_admin := a; c_regimen := match a with Some _ => r | None => None end;
         c_pnames := parameter_names (variant a); c_outs := sel; c_onames := sel; c_sens := None |}.
  Proof.
    intros Hc Hl. unfold canon.
    assert (Eo : forall om : list string,
               values (map (fun n => (n, match slookup n (identity_map om) with Some v => v | None => n end)) sel) = sel).
    { intros om. unfold values. rewrite map_map. cbn.
      rewrite <- (map_id sel) at 2. apply map_ext. intros n. apply slookup_identity. }
    destruct a as [[c d]|].
    - specialize (Hc c d eq_refl).
      destruct r as [p|]; cbn [app Config.run fold_left Config.step fst Config.init admin].
      + rewrite Hc. cbn [fst admin omap outs sim_v]. rewrite translate_identity, Hl.
        unfold disable_sens. cbn [has_sens fst]. unfold cfg_of. cbn. rewrite values_identity, Eo. reflexivity.
      + rewrite Hc. cbn [fst admin omap outs sim_v]. rewrite translate_identity, Hl.
        unfold disable_sens. cbn [has_sens fst]. unfold cfg_of. cbn. rewrite values_identity, Eo. reflexivity.
    - cbn [Config.run fold_left Config.step fst Config.init omap sim_v]. rewrite translate_identity, Hl.
      unfold disable_sens. cbn [has_sens fst]. unfold cfg_of. cbn. rewrite values_identity, Eo. reflexivity.
  Qed.

  (* hence: a history that ends in such a configuration leaves the object in exactly the state of a fresh model to
     which only that configuration was applied *)
  Theorem history_equals_fresh (ops : list (op P)) (a : adm) (r : option P) (sel sel0 : list string) :
    (forall c d, a = Some (c, d) -> has_comp c = true) ->
    forallb (fun n => mem n (loggable a)) sel = true ->
    cfg_of (run variant loggable has_comp ops (init variant sel0))
    = {| c_admin := a; c_regimen := match a with Some _ => r | None => None end;
         c_pnames := parameter_names (variant a); c_outs := sel; c_onames := sel; c_sens := None |} ->
    run variant loggable has_comp ops (init variant sel0)
    = run variant loggable has_comp (canon a r sel) (init variant sel0).
  Proof.
    intros Hc Hl E. apply (same_config_same_state P variant).
    - apply run_consistent, init_consistent.
    - apply run_consistent, init_consistent.
    - rewrite E. symmetry. now apply canon_reaches.
  Qed.
End Canon.
