(* Proofs about Model/Seeds.v. *)
From Coq Require Import List Arith Bool Lia FinFun.
From Chi Require Import Model.Seeds.
Import ListNotations.

Lemma reads_length g k : List.length (reads g k) = k.
Proof. unfold reads. now rewrite map_length, seq_length. Qed.
Lemma reads_In g k p : In p (reads g k) <-> fst p = g_seed g /\ g_pos g <= snd p < g_pos g + k.
Proof.
  unfold reads. rewrite in_map_iff. split.
  - intros [i [E I]]. apply in_seq in I. subst p. cbn. lia.
  - intros [E1 E2]. exists (snd p - g_pos g). split.
    + destruct p as [a b]. cbn in *. subst a. f_equal. lia.
    + apply in_seq. lia.
Qed.
Lemma reads_NoDup g k : NoDup (reads g k).
Proof.
  unfold reads. apply Injective_map_NoDup; [|apply seq_NoDup].
  intros a b E. inversion E. lia.
Qed.

Lemma blocks_gen g ks : snd (blocks g ks) = advance g (list_sum ks).
Proof.
  revert g; induction ks as [|k t IH]; intros g.
  - cbn. destruct g as [s p]. unfold advance. cbn. f_equal. lia.
  - change (list_sum (k :: t)) with (k + list_sum t). cbn [blocks draw]. specialize (IH (advance g k)).
    destruct (blocks (advance g k) t) as [bs g'']. cbn [snd] in *. rewrite IH.
    destruct g as [s p]. unfold advance. cbn. f_equal. lia.
Qed.
Lemma blocks_In g ks b p :
  In b (fst (blocks g ks)) -> In p b -> fst p = g_seed g /\ g_pos g <= snd p < g_pos g + list_sum ks.
Proof.
  revert g; induction ks as [|k t IH]; intros g; [cbn; contradiction|].
  change (list_sum (k :: t)) with (k + list_sum t). cbn [blocks draw].
  specialize (IH (advance g k)). destruct (blocks (advance g k) t) as [bs g'']. cbn [fst] in *.
  intros [<-|I] Hp.
  - apply reads_In in Hp. lia.
  - destruct (IH I Hp) as [E1 E2]. unfold advance in *. cbn [g_seed g_pos] in *. lia.
Qed.

Lemma NoDup_app_intro {A} (l l' : list A) :
  NoDup l -> NoDup l' -> (forall x, In x l -> In x l' -> False) -> NoDup (l ++ l').
Proof.
  induction l as [|a t IH]; cbn; intros H1 H2 H; [exact H2|].
  inversion H1 as [|? ? Ha Ht]; subst. constructor.
  - intros I. apply in_app_or in I. destruct I as [I|I]; [contradiction|]. apply (H a); [now left|exact I].
  - apply IH; [exact Ht|exact H2|]. intros x I1 I2. apply (H x); [now right|exact I2].
Qed.

(* (1) within one call: all positions read, over all sub-samplers, are pairwise distinct — different outputs,
   time points, individuals and samples never share a primitive variate *)
Theorem shared_plan_disjoint a ks : NoDup (concat (fst (shared_plan a ks))).
Proof.
  unfold shared_plan. generalize (default_rng a). intros g. revert g.
  induction ks as [|k t IH]; intros g; cbn; [constructor|].
  specialize (IH (advance g k)). pose proof (blocks_In (advance g k) t) as B.
  destruct (blocks (advance g k) t) as [bs g'']. cbn in *.
  apply NoDup_app_intro; [apply reads_NoDup|exact IH|].
  intros p I1 I2. apply reads_In in I1. apply in_concat in I2. destruct I2 as [b [Ib Ip]].
  destruct (B b p Ib Ip) as [_ E]. cbn in E. lia.
Qed.

(* (2) an integer seed determines every position read: nothing else (global generator state, earlier calls)
   enters *)
Theorem int_seed_determines s ks : shared_plan (IntSeed s) ks = blocks (fresh s) ks.
Proof. reflexivity. Qed.

(* (3) a generator passed as seed is advanced, not restarted: it ends past everything the call read, and a second
   call with the same generator object reads positions disjoint from those of the first *)
Theorem generator_advanced g ks : snd (shared_plan (GenSeed g) ks) = advance g (list_sum ks).
Proof. apply blocks_gen. Qed.
Theorem second_call_disjoint g ks ks' p :
  In p (concat (fst (shared_plan (GenSeed g) ks))) ->
  ~ In p (concat (fst (shared_plan (GenSeed (snd (shared_plan (GenSeed g) ks))) ks'))).
Proof.
  intros I1 I2. apply in_concat in I1. destruct I1 as [b [Ib Ip]].
  apply in_concat in I2. destruct I2 as [b' [Ib' Ip']].
  unfold shared_plan in *. cbn [default_rng] in *. rewrite blocks_gen in Ib'.
  destruct (blocks_In _ _ _ _ Ib Ip) as [_ E]. destruct (blocks_In _ _ _ _ Ib' Ip') as [_ E']. cbn in E'. lia.
Qed.

(* (4) what the repaired defect did: restarting the stream for every sub-sampler makes any two non-empty blocks
   share their first variate *)
Theorem restarting_overlaps s k k' : 0 < k -> 0 < k' ->
  exists p, In p (reads (fresh s) k) /\ In p (reads (fresh s) k').
Proof. intros Hk Hk'. exists (s, 0). split; apply reads_In; cbn; lia. Qed.


(* ---------------- every consumer reads exactly what it asked for; calls compose ---------------- *)
Lemma blocks_lengths g ks : map (@List.length position) (fst (blocks g ks)) = ks.
Proof.
  revert g. induction ks as [|k t IH]; intros g; cbn [blocks]; [reflexivity|].
  unfold draw. specialize (IH (advance g k)). destruct (blocks (advance g k) t) as [bs g''].
  cbn [fst map] in *. now rewrite reads_length, IH.
Qed.
Lemma blocks_app g ks ks' :
  blocks g (ks ++ ks') =
    (fst (blocks g ks) ++ fst (blocks (snd (blocks g ks)) ks'), snd (blocks (snd (blocks g ks)) ks')).
Proof.
  revert g. induction ks as [|k t IH]; intros g; cbn [app blocks].
  - cbn [fst snd app]. now destruct (blocks g ks').
  - unfold draw. rewrite (IH (advance g k)). destruct (blocks (advance g k) t) as [bs g''].
    cbn [fst snd app]. reflexivity.
Qed.
(* streams of different integer seeds never share a position *)
Lemma distinct_seeds_disjoint s s' ks ks' p : s <> s' ->
  In p (concat (fst (shared_plan (IntSeed s) ks))) -> ~ In p (concat (fst (shared_plan (IntSeed s') ks'))).
Proof.
  intros Hne H H'.
  assert (Hs : forall g l q, In q (concat (fst (blocks g l))) -> fst q = g_seed g).
  { intros g l. revert g. induction l as [|k t IH]; intros g q; cbn [blocks]; [intros []|].
    unfold draw. specialize (IH (advance g k) q). destruct (blocks (advance g k) t) as [bs g''].
    cbn [fst concat] in *. rewrite in_app_iff. intros [Hq|Hq]; [now apply reads_In in Hq|]. now apply IH in Hq. }
  apply Hs in H. apply Hs in H'. cbn in H, H'. congruence.
Qed.
