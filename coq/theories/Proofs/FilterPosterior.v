(* Proofs about Model/FilterPosterior.v (C13). *)
From Coq Require Import Reals Lra List Arith Lia ssreflect.
From Coquelicot Require Import Coquelicot.
From Chi Require Import Base.RSum Model.PopModels Model.FilterPosterior Proofs.PopModels.
Import ListNotations.

(* ---------------- the blocks partition the vector ---------------- *)
Theorem blocks_partition n_pop n_obs fs n_s n_hdim n_times :
  n_parameters n_pop n_obs fs n_s n_hdim n_times
  = (n_top n_pop n_obs fs + n_s * n_hdim + n_s * n_obs * n_times)%nat /\
  length (fp_ids n_pop n_obs fs n_s n_hdim n_times) = n_parameters n_pop n_obs fs n_s n_hdim n_times.
Proof.
  split; first by rewrite /n_parameters; nia.
  rewrite /fp_ids !app_length repeat_length /n_parameters.
  have L : forall k, length (flat_map (fun s => repeat (Some s) k) (seq 0 n_s)) = (n_s * k)%nat.
  { move=> k. rewrite -{2}(seq_length n_s 0). elim: (seq 0 n_s) => [|a l IH] //=.
    rewrite app_length repeat_length IH. lia. }
  rewrite !L. nia.
Qed.

Theorem eps_roundtrip endb n_obs n_times s r j : (r < n_obs)%nat -> (j < n_times)%nat ->
  eps_of_pos endb n_obs n_times (eps_pos endb n_obs n_times s r j) = (s, r, j).
Proof.
  move=> Hr Hj. rewrite /eps_of_pos /eps_pos.
  have -> : (endb + (s * n_obs + r) * n_times + j - endb = (s * n_obs + r) * n_times + j)%nat by lia.
  have E1 : (((s * n_obs + r) * n_times + j) / n_times = s * n_obs + r)%nat.
  { rewrite Nat.div_add_l; last lia. rewrite Nat.div_small //. lia. }
  have E2 : (((s * n_obs + r) * n_times + j) mod n_times = j)%nat.
  { rewrite Nat.add_comm Nat.mod_add; last lia. by apply Nat.mod_small. }
  rewrite E1 E2. f_equal. f_equal.
  - rewrite Nat.div_add_l; last lia. rewrite Nat.div_small //. lia.
  - rewrite Nat.add_comm Nat.mod_add; last lia. by apply Nat.mod_small.
Qed.

Theorem eps_pos_range endb n_s n_obs n_times s r j : (s < n_s)%nat -> (r < n_obs)%nat -> (j < n_times)%nat ->
  (endb <= eps_pos endb n_obs n_times s r j < endb + n_s * n_obs * n_times)%nat.
Proof.
  move=> Hs Hr Hj. rewrite /eps_pos.
  have H1 : (s * n_obs + r + 1 <= n_s * n_obs)%nat by nia.
  have H2 := Nat.mul_le_mono_r _ _ n_times H1. lia.
Qed.

(* ---------------- noise ---------------- *)
Open Scope R_scope.

(* chi's noise score is the standard-normal log-density of all realisations up to a constant that does not
   depend on any parameter *)
Theorem noise_is_standard_normal n_const eps :
  noise_lp n_const eps
  = Rsum (map NC_lp eps) + (INR (length eps) - INR n_const) * ln (2 * PI) / 2.
Proof.
  rewrite /noise_lp.
  have -> : Rsum (map NC_lp eps) = - INR (length eps) * ln (2 * PI) / 2 - Rsum (map (fun e => e^2) eps) / 2.
  { elim: eps => [|e l IH]; first by rewrite /=; lra.
    change (length (e :: l)) with (S (length l)). rewrite S_INR. cbn [map Rsum]. rewrite IH /NC_lp. lra. }
  lra.
Qed.

(* sensitivities of (filter score F of the simulated measurement + standard-normal score of the realisation) *)
Theorem deps_add_correct (F : R -> R) m sg eps g : is_derive F (y_add m sg eps) g ->
  is_derive (fun e => F (y_add m sg e) + - e^2 / 2) eps (deps_add sg eps g).
Proof.
  move=> HF. rewrite /deps_add Rplus_comm. apply: is_derive_plus.
  - apply (comp_R F (fun e => y_add m sg e)) => //. rewrite /y_add. auto_derive => //; ring.
  - auto_derive => //. field.
Qed.
Theorem deps_log_correct (F : R -> R) m sg eps g : is_derive F (y_log m sg eps) g ->
  is_derive (fun e => F (y_log m sg e) + - e^2 / 2) eps (deps_log m sg eps g).
Proof.
  move=> HF. rewrite /deps_log Rplus_comm. apply: is_derive_plus.
  - evar_last; first by apply (comp_R F (fun e => y_log m sg e) eps g (y_log m sg eps * sg)) => //;
      rewrite /y_log; auto_derive => //; ring.
    ring.
  - auto_derive => //. field.
Qed.
Theorem dsig_add_correct (F : R -> R) m sg eps g : is_derive F (y_add m sg eps) g ->
  is_derive (fun s => F (y_add m s eps)) sg (dsig_add eps g).
Proof.
  move=> HF. rewrite /dsig_add. apply (comp_R F (fun s => y_add m s eps)) => //. rewrite /y_add. auto_derive => //; ring.
Qed.
Theorem dsig_log_correct (F : R -> R) m sg eps g : is_derive F (y_log m sg eps) g ->
  is_derive (fun s => F (y_log m s eps)) sg (dsig_log m sg eps g).
Proof.
  move=> HF. rewrite /dsig_log.
  evar_last; first by apply (comp_R F (fun s => y_log m s eps) sg g (y_log m sg eps * eps)) => //;
    rewrite /y_log; auto_derive => //; ring.
  ring.
Qed.
(* through the mechanistic output m (then on to the individual parameters by the output sensitivities) *)
Theorem dm_add_correct (F : R -> R) m sg eps g : is_derive F (y_add m sg eps) g ->
  is_derive (fun t => F (y_add t sg eps)) m (dm_add g).
Proof.
  move=> HF. rewrite /dm_add. evar_last; first by apply (comp_R F (fun t => y_add t sg eps) m g 1) => //;
    rewrite /y_add; auto_derive => //; ring.
  ring.
Qed.
Theorem dm_log_correct (F : R -> R) m sg eps g : is_derive F (y_log m sg eps) g ->
  is_derive (fun t => F (y_log t sg eps)) m (dm_log sg eps g).
Proof.
  move=> HF. rewrite /dm_log. apply (comp_R F (fun t => y_log t sg eps)) => //. rewrite /y_log. auto_derive => //; ring.
Qed.
