(* C02 — hierarchical log-likelihood = individual likelihoods + population density.
   Statements only.  The flat vector is [bottom values of the non-special dimensions, individual by individual |
   population parameters]; Model/Layout.v describes that layout for every composition, Model/PopModels.v the
   population terms and transforms, Model/LogLik.v the individual likelihoods; harness/popspec.py assembles
   them into the specification sum that chi's value is certified against on every run. *)
From Coq Require Import Reals List Arith Bool Permutation.
From Chi Require Import Base.RSum Base.Score Model.Layout Model.PopModels Model.LogLik Proofs.Layout.
Import ListNotations.

(* (1) reading the bottom block: chi's start/shift loop places, for EVERY composition (pooled and heterogeneous
   sub-models at any position, any dimensionality), the k-th bottom entry of an individual at the k-th
   non-special dimension and leaves exactly the special dimensions to the population parameters *)
Theorem C02_bottom_block_is_gather : forall (V : Type) (c : comp) (row : list V) d,
  length row = N_hdim c -> (d < N_dim c)%nat ->
  nth_error (shape V (special_ranges 0 c) 0 0 row) d = gather V (special_ranges 0 c) row d.
Proof. exact shape_eta_composition. Qed.

(* (2) vector length = number of published names = number of published IDs, and the IDs mark exactly the
   individual-level entries *)
Theorem C02_names_ids_lengths : forall (N : Type) nm_param nm_cov nm_dim nm_id n_ids c,
  length (names N nm_param nm_cov nm_dim nm_id n_ids c) = N_parameters n_ids c /\
  length (ids n_ids c) = N_parameters n_ids c.
Proof. exact C17_lengths. Qed.
Theorem C02_ids_mark_bottom : forall n_ids c k, (k < N_parameters n_ids c)%nat ->
  (nth k (ids n_ids c) None <> None <-> (k < N_bottom n_ids c)%nat).
Proof. exact C17_ids_mark_bottom. Qed.

(* (3) the score: population part plus the sum of the individual likelihoods; when the population part is
   -inf chi returns early without evaluating the individuals, which is the same value *)
Open Scope R_scope.
Definition hll_spec (pop : score) (lls : list score) : score := splus pop (ssum lls).
Lemma early_return lls : hll_spec NegInf lls = NegInf.
Proof. reflexivity. Qed.
Theorem C02_early_return : forall lls, hll_spec NegInf lls = NegInf.
Proof. exact early_return. Qed.
Lemma ssum_map_Fin ls : ssum (map Fin ls) = Fin (Rsum ls).
Proof. induction ls as [|a l IH]; cbn [map ssum Rsum]; [reflexivity | rewrite IH; reflexivity]. Qed.
Lemma hll_finite p ls : hll_spec (Fin p) (map Fin ls) = Fin (p + Rsum ls).
Proof. unfold hll_spec. rewrite ssum_map_Fin. reflexivity. Qed.
Theorem C02_score_is_sum : forall p ls, hll_spec (Fin p) (map Fin ls) = Fin (p + Rsum ls).
Proof. exact hll_finite. Qed.

(* (4) the score does not depend on the order in which the individuals are listed; it is -inf as soon as one
   individual's likelihood is, and finite exactly when the population part and every individual part are *)
Lemma splus_comm a b : splus a b = splus b a.
Proof. destruct a, b; cbn; try reflexivity. now rewrite Rplus_comm. Qed.
Lemma splus_assoc a b c : splus a (splus b c) = splus (splus a b) c.
Proof. destruct a, b, c; cbn; try reflexivity. now rewrite Rplus_assoc. Qed.
Lemma ssum_perm l l' : Permutation l l' -> ssum l = ssum l'.
Proof.
  induction 1 as [|x l l' _ IH|x y l|l l' l'' _ IH1 _ IH2]; cbn [ssum].
  - reflexivity.
  - now rewrite IH.
  - now rewrite !splus_assoc, (splus_comm y x).
  - now rewrite IH1.
Qed.
Lemma hll_perm pop l l' : Permutation l l' -> hll_spec pop l = hll_spec pop l'.
Proof. intros H. unfold hll_spec. now rewrite (ssum_perm _ _ H). Qed.
Lemma ssum_neginf l : In NegInf l -> ssum l = NegInf.
Proof.
  induction l as [|a l IH]; cbn [In ssum]; [intros []|]. intros [->|H]; [reflexivity|].
  rewrite (IH H). now destruct a.
Qed.
Lemma hll_neginf pop l : In NegInf l -> hll_spec pop l = NegInf.
Proof. intros H. unfold hll_spec. rewrite (ssum_neginf _ H). now destruct pop. Qed.
Lemma sfinite_splus a b : sfinite (splus a b) = sfinite a && sfinite b.
Proof. destruct a, b; reflexivity. Qed.
Lemma sfinite_ssum l : sfinite (ssum l) = forallb sfinite l.
Proof. induction l as [|a l IH]; cbn [ssum forallb]; [reflexivity|]. now rewrite sfinite_splus, IH. Qed.
Lemma hll_finite_iff pop l : sfinite (hll_spec pop l) = sfinite pop && forallb sfinite l.
Proof. unfold hll_spec. now rewrite sfinite_splus, sfinite_ssum. Qed.
Theorem C02_individual_order_free : forall pop l l', Permutation l l' -> hll_spec pop l = hll_spec pop l'.
Proof. exact hll_perm. Qed.
Theorem C02_one_neginf_individual : forall pop l, In NegInf l -> hll_spec pop l = NegInf.
Proof. exact hll_neginf. Qed.
Theorem C02_finite_iff_all_finite : forall pop l,
  sfinite (hll_spec pop l) = sfinite pop && forallb sfinite l.
Proof. exact hll_finite_iff. Qed.
Close Scope R_scope.
Example C02_nonvacuous :
  let c := [ {| sk := KPooled; sdim := 2; scov := None |}; {| sk := KGauss; sdim := 1; scov := None |};
             {| sk := KHetero; sdim := 1; scov := None |}; {| sk := KLogNormal; sdim := 1; scov := None |} ] in
  shape nat (special_ranges 0 c) 0 0 [7; 9]%nat = [None; None; Some 7; None; Some 9]%nat.
Proof. reflexivity. Qed.
