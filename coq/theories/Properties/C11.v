(* C11 — mechanistic model behaviour depends only on its final configuration.
   Statements only; proofs are `exact <lemma of Proofs/Config.v>`.  All axiom-free.
   P: dosing regimens; variant / loggable / has_comp: the solver's view of the model for each administration, the
   loggable variables, the dosable compartments (myokit's model surgery is an oracle). *)
From Coq Require Import List Bool String Arith.
From Chi Require Import Model.Mechanistic Model.Config Proofs.Config.
Import ListNotations.

(* (1) after every finite sequence of configuration calls the object is consistent: model, name tables and solver
   object all belong to the reported administration, the solver carries the reported regimen, the name maps cover
   exactly the published parameters / selected outputs, and the sensitivity flag matches the solver *)
Theorem C11_consistent_after_any_history :
  forall (P : Type) variant loggable has_comp (ops : list (op P)) outs0,
  Consistent variant (run variant loggable has_comp ops (init variant outs0)).
Proof. intros. apply run_consistent, init_consistent. Qed.

(* (2) a consistent object is THE realisation of its configuration (administration, regimen, displayed parameter
   names, selected outputs, displayed output names, sensitivity targets): nothing else about its history survives *)
Theorem C11_state_is_config : forall (P : Type) variant (s : pk P),
  Consistent variant s -> conc variant (cfg_of s) = s.
Proof. exact state_is_config. Qed.

(* (3) so two histories that end in the same configuration are indistinguishable, now and after any further calls *)
Theorem C11_history_independent :
  forall (P : Type) variant loggable has_comp (ops1 ops2 : list (op P)) outs0 (rest : list (op P)),
  cfg_of (run variant loggable has_comp ops1 (init variant outs0))
  = cfg_of (run variant loggable has_comp ops2 (init variant outs0)) ->
  observe variant (run variant loggable has_comp rest (run variant loggable has_comp ops1 (init variant outs0)))
  = observe variant (run variant loggable has_comp rest (run variant loggable has_comp ops2 (init variant outs0))).
Proof. exact history_independent. Qed.

(* (4) the regimen reported is the one simulations apply, on the model of the reported administration *)
Theorem C11_reported_is_applied :
  forall (P : Type) variant loggable has_comp (ops : list (op P)) outs0,
  let s := run variant loggable has_comp ops (init variant outs0) in
  sim_protocol s = regimen s /\ sim_v s = admin s /\ tables s = admin s.
Proof. exact reported_is_applied. Qed.

(* (5) simulate() on a consistent object is C09's simulate for the model of the reported administration *)
Theorem C11_simulation_of_config : forall (P V : Type) (d : V) (plus1 : V -> V) variant (s : pk P) (th ts : list V),
  Consistent variant s ->
  let o := observe variant s in
  simulate_with V d plus1 (o_order P o) (o_consts P o) (o_n_states P o) (o_logged P o) th ts
  = simulate_calls V d plus1 (variant (admin s)) (outs s) th ts /\
  o_sim_model P o = admin s /\ o_sim_protocol P o = regimen s /\ o_regimen P o = regimen s.
Proof. exact simulation_of_config. Qed.

(* (6) names and counts reported by a consistent object *)
Theorem C11_observed_names : forall (P : Type) variant (s : pk P),
  Consistent variant s -> NoDup (parameter_names (variant (admin s))) -> NoDup (outs s) ->
  o_parameters P (observe variant s) = values (pmap s) /\
  List.length (o_parameters P (observe variant s)) = o_n_parameters P (observe variant s) /\
  o_outputs P (observe variant s) = values (omap s).
Proof. exact observed_names. Qed.

(* (7) copy: a consistent object with the same configuration except that sensitivities are switched off (as chi
   documents); identical to the original when they were off *)
Theorem C11_copy : forall (P : Type) variant loggable has_comp (s : pk P),
  Consistent variant s ->
  let c := fst (step variant loggable has_comp s (Copy P)) in
  Consistent variant c /\
  cfg_of c = {| c_admin := admin s; c_regimen := regimen s; c_pnames := values (pmap s); c_outs := outs s;
                c_onames := values (omap s); c_sens := None |} /\
  (has_sens s = false -> c = s).
Proof. exact copy_config. Qed.

(* (8) the calls that apply a net configuration (administration, regimen, outputs; no renaming, no sensitivities) to a
   fresh model reach exactly that configuration, so any history ending in it leaves the object in the state of the
   fresh model to which only the net configuration was applied *)
Theorem C11_fresh_with_net_configuration :
  forall (P : Type) variant loggable has_comp (a : adm) (r : option P) (sel sel0 : list string),
  (forall c d, a = Some (c, d) -> has_comp c = true) ->
  forallb (fun n => mem n (loggable a)) sel = true ->
  cfg_of (run variant loggable has_comp (canon P a r sel) (init variant sel0))
  = {| c_admin := a; c_regimen := match a with Some _ => r | None => None end;
       c_pnames := parameter_names (variant a); c_outs := sel; c_onames := sel; c_sens := None |}.
Proof. exact canon_reaches. Qed.
Theorem C11_history_equals_fresh :
  forall (P : Type) variant loggable has_comp (ops : list (op P)) (a : adm) (r : option P) (sel sel0 : list string),
  (forall c d, a = Some (c, d) -> has_comp c = true) ->
  forallb (fun n => mem n (loggable a)) sel = true ->
  cfg_of (run variant loggable has_comp ops (init variant sel0))
  = {| c_admin := a; c_regimen := match a with Some _ => r | None => None end;
       c_pnames := parameter_names (variant a); c_outs := sel; c_onames := sel; c_sens := None |} ->
  run variant loggable has_comp ops (init variant sel0)
  = run variant loggable has_comp (canon P a r sel) (init variant sel0).
Proof. exact history_equals_fresh. Qed.
