(* C15 — predictive models sample the stated generative process, correctly labelled (partial, see DESIGN).
   Statements only; proofs are `exact <lemma of Proofs/Predictive.v>`.  All axiom-free.
   What is proved is the labelling and routing: which (output, time, sample) every table row belongs to, that the
   pool of a posterior predictive model consists of joint draws, how the IDs of an averaged model are shifted.  The
   laws of the draws themselves are C06; the streams they use C16. *)
From Coq Require Import List Bool String Arith.
From Chi Require Import Model.Predictive Proofs.Predictive.
Import ListNotations.

Theorem C15_table_length : forall (T V : Type) (t0 : T) names times n value,
  List.length (table_ots T V t0 names times n value) = List.length names * (List.length times * n).
Proof. exact table_ots_length. Qed.
Theorem C15_table_row : forall (T V : Type) (t0 : T) (v0 : V) names times n value o t s,
  o < List.length names -> t < List.length times -> s < n ->
  nth ((o * List.length times + t) * n + s) (table_ots T V t0 names times n value) (r0 T V t0 v0)
  = (S s, nth t times t0, nth o names EmptyString, value o t s).
Proof. exact table_ots_row. Qed.
Theorem C15_sample_major_table_length : forall (T V : Type) (t0 : T) names times n value,
  List.length (table_sot T V t0 names times n value) = n * (List.length names * List.length times).
Proof. exact table_sot_length. Qed.
Theorem C15_sample_major_table_row : forall (T V : Type) (t0 : T) (v0 : V) names times n value s o t,
  s < n -> o < List.length names -> t < List.length times ->
  nth ((s * List.length names + o) * List.length times + t) (table_sot T V t0 names times n value) (r0 T V t0 v0)
  = (S s, nth t times t0, nth o names EmptyString, value o t s).
Proof. exact table_sot_row. Qed.
Theorem C15_patients : forall (E P : Type) (indiv : E -> P) (draws : list E) p (e0 : E),
  p < List.length draws -> nth p (patients indiv draws) (indiv e0) = indiv (nth p draws e0).
Proof. exact @patients_spec. Qed.
Theorem C15_posterior_rows_joint : forall (V : Type) n_chains n_draws (params : list (nat -> nat -> V)) c d,
  c < n_chains -> d < n_draws ->
  nth (c * n_draws + d) (posterior_rows V n_chains n_draws params) [] = map (fun f => f c d) params.
Proof. exact posterior_rows_joint. Qed.
Theorem C15_posterior_rows_length : forall (V : Type) n_chains n_draws (params : list (nat -> nat -> V)),
  List.length (posterior_rows V n_chains n_draws params) = n_chains * n_draws.
Proof. exact posterior_rows_length. Qed.
Theorem C15_pam_ids : forall (T V : Type) tables before i t o v,
  (forall n rows, In (n, rows) tables -> forall j t' o' v', In (j, t', o', v') rows -> 1 <= j <= n) ->
  In (i, t, o, v) (pam_tables T V tables before) ->
  before < i <= before + list_sum (map fst tables).
Proof. exact pam_ids_in_range. Qed.
