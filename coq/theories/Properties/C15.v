(* C15 — predictive models sample the stated generative process, correctly labelled (partial, see DESIGN).
   Statements only; proofs are `exact <lemma of Proofs/Predictive.v>`.  All axiom-free.
   What is proved is the labelling and routing: which (output, time, sample) every table row belongs to, that the
   pool of a posterior predictive model consists of joint draws, how the IDs of an averaged model are shifted.  The
   laws of the draws themselves are C06; the streams they use C16. *)
From Coq Require Import List Bool String Arith Permutation.
From Chi Require Import Model.Predictive Proofs.Predictive.
Import ListNotations.

Theorem C15_table_length : forall (T V : Type) (t0 : T) names times n value,
  List.length (table_ots T V t0 names times n value) = List.length names * (List.length times * n).
Proof. exact table_ots_length. Qed.
Theorem C15_table_row : forall (T V : Type) (t0 : T) (v0 : V) names times n value o t s,
  o < List.length names -> t < List.length times -> s < n ->
  nth ((o * List.length times + t) * n + s) (table_ots T V t0 names times n value) (r0 T V t0 v0)
  = (S s, nth t times t0, nth o names EmptyString, value o t s).
Proof. exact table_ots_row. Qed.
Theorem C15_sample_major_table_length : forall (T V : Type) (t0 : T) names times n value,
  List.length (table_sot T V t0 names times n value) = n * (List.length names * List.length times).
Proof. exact table_sot_length. Qed.
Theorem C15_sample_major_table_row : forall (T V : Type) (t0 : T) (v0 : V) names times n value s o t,
  s < n -> o < List.length names -> t < List.length times ->
  nth ((s * List.length names + o) * List.length times + t) (table_sot T V t0 names times n value) (r0 T V t0 v0)
  = (S s, nth t times t0, nth o names EmptyString, value o t s).
Proof. exact table_sot_row. Qed.
Theorem C15_patients : forall (E P : Type) (indiv : E -> P) (draws : list E) p (e0 : E),
  p < List.length draws -> nth p (patients indiv draws) (indiv e0) = indiv (nth p draws e0).
Proof. exact @patients_spec. Qed.
Theorem C15_posterior_rows_joint : forall (V : Type) n_chains n_draws (params : list (nat -> nat -> V)) c d,
  c < n_chains -> d < n_draws ->
  nth (c * n_draws + d) (posterior_rows V n_chains n_draws params) [] = map (fun f => f c d) params.
Proof. exact posterior_rows_joint. Qed.
Theorem C15_posterior_rows_length : forall (V : Type) n_chains n_draws (params : list (nat -> nat -> V)),
  List.length (posterior_rows V n_chains n_draws params) = n_chains * n_draws.
Proof. exact posterior_rows_length. Qed.
Theorem C15_pam_ids : forall (T V : Type) tables before i t o v,
  (forall n rows, In (n, rows) tables -> forall j t' o' v', In (j, t', o', v') rows -> 1 <= j <= n) ->
  In (i, t, o, v) (pam_tables T V tables before) ->
  before < i <= before + list_sum (map fst tables).
Proof. exact pam_ids_in_range. Qed.

(* ---- parameter names of a posterior predictive model (param_map) ---- *)
(* every model parameter name is looked up once: position j reads the dataset variable the map gives for name j, or
   the name itself; the targets may be other parameter names (swaps, chains) *)
Theorem C15_param_map_positionwise : forall m names j n, nth_error names j = Some n ->
  nth_error (translate m names) j =
  Some (match find (fun kv => String.eqb (fst kv) n) m with Some kv => snd kv | None => n end).
Proof. exact translate_spec. Qed.
(* the order of the dictionary is irrelevant *)
Theorem C15_param_map_order_independent : forall (m m' : list (string * string)) names,
  NoDup (map fst m) -> Permutation m m' -> translate m names = translate m' names.
Proof. exact translate_order_independent. Qed.
(* replacing in place while walking through the dictionary is a different function *)
Theorem C15_param_map_chained_refuted : exists m names,
  NoDup (map fst m) /\ NoDup names /\ translate_chained m names <> translate m names.
Proof. exact translate_chained_refuted. Qed.

(* ---- averaged (PAM) model: which model generates which sample ID ---- *)
(* for ANY vector of model draws: every ID belongs to one model, model m owns exactly as many IDs as it was drawn *)
Theorem C15_pam_partition : forall k draws, Forall (fun d => d < k) draws ->
  List.length (id_models (counts k draws)) = List.length draws /\
  forall m, m < k -> count_occ Nat.eq_dec (id_models (counts k draws)) m = count_occ Nat.eq_dec draws m.
Proof. exact pam_partition. Qed.
(* counting only the models that occur (numpy.unique) attributes IDs to the wrong models *)
Theorem C15_pam_unique_counts_refuted : exists k draws, Forall (fun d => d < k) draws /\
  id_models (counts_unique k draws) <> id_models (counts k draws).
Proof. exact counts_unique_refuted. Qed.
