(* C03 — analytic gradients equal the true derivatives of the evaluated log-pdf.
   Statements only.  Every flat coordinate touches exactly one quantity (a mechanistic parameter, an error
   parameter of one output, a bottom-level value, a population mean / std / pooled value, a covariate
   coefficient), so the statements are one-dimensional; the sums over outputs / individuals are arbitrary. *)
From Coq Require Import Reals List.
From Coquelicot Require Import Coquelicot.
From Chi Require Import Base.RSum Base.Score Model.ErrorModels Model.TimeGrid Model.LogLik Model.PopModels
     Proofs.ErrorModels Proofs.Gradients Proofs.PopModels.
Import ListNotations.
Open Scope R_scope.

(* ---- individual likelihood (any number of outputs, any mix of the four error models) ---- *)
Theorem C03_ll_mechanistic : forall (os : list output) x, (forall o, In o os -> out_ok o x) ->
  is_derive (fun t => Rsum (map (fun o => out_total o t) os)) x (Rsum (map (fun o => out_dpsi o x) os)).
Proof. exact ll_dmech_correct. Qed.
Theorem C03_ll_error_G : forall A s ms ys, 0 < s -> length ms = length ys ->
  is_derive (fun t => A + G_total t ms ys) s (G_dsigma s ms ys).
Proof. exact ll_derr_G. Qed.
Theorem C03_ll_error_LN : forall A s ms ys, 0 < s -> length ms = length ys ->
  is_derive (fun t => A + LN_total t ms ys) s (LN_dsigma s ms ys).
Proof. exact ll_derr_LN. Qed.
Theorem C03_ll_error_MG : forall A sr ms ys, length ms = length ys -> (forall m, In m ms -> 0 < sr * m) ->
  is_derive (fun t => A + MG_total t ms ys) sr (MG_dsigma sr ms ys).
Proof. exact ll_derr_MG. Qed.
Theorem C03_ll_error_CMG_base : forall A sb sr ms ys,
  length ms = length ys -> (forall m, In m ms -> 0 < sb + sr * m) ->
  is_derive (fun t => A + CMG_total t sr ms ys) sb (CMG_dsb sb sr ms ys).
Proof. exact ll_derr_CMG_base. Qed.
Theorem C03_ll_error_CMG_rel : forall A sb sr ms ys,
  length ms = length ys -> (forall m, In m ms -> 0 < sb + sr * m) ->
  is_derive (fun t => A + CMG_total sb t ms ys) sr (CMG_dsr sb sr ms ys).
Proof. exact ll_derr_CMG_rel. Qed.

(* the score returned with the sensitivities is the plain score, -inf on exactly the same inputs *)
Theorem C03_ll_score_agrees : forall pred sens n_mech ks ts obs th,
  fst (ll_S1_spec pred sens n_mech ks ts obs th) = ll_spec pred n_mech ks ts obs th.
Proof. exact ll_S1_score_agrees. Qed.

(* ---- hierarchical likelihood: bottom-level and population coordinates (chain rule through the transform of
   non-centred models; u = derivative of the individual's likelihood w.r.t. its parameter) ---- *)
Theorem C03_bottom_centered_G : forall (L : R -> R) mu sg psi u, 0 < sg -> is_derive L psi u ->
  is_derive (fun t => L t + G_lp mu sg t) psi (up_centered (G_dpsi mu sg psi) u).
Proof. exact up_centered_G. Qed.
Theorem C03_bottom_centered_LN : forall (L : R -> R) mu sg psi u, 0 < sg -> 0 < psi -> is_derive L psi u ->
  is_derive (fun t => L t + LN_lp mu sg t) psi (up_centered (LN_dpsi mu sg psi) u).
Proof. exact up_centered_LN. Qed.
Theorem C03_bottom_noncentered_G : forall (L : R -> R) mu sg eta u, is_derive L (Gnc_psi mu sg eta) u ->
  is_derive (fun e => L (Gnc_psi mu sg e) + NC_lp e) eta (Gnc_deta sg eta u).
Proof. exact Gnc_deta_correct. Qed.
Theorem C03_bottom_noncentered_LN : forall (L : R -> R) mu sg eta u, is_derive L (LNnc_psi mu sg eta) u ->
  is_derive (fun e => L (LNnc_psi mu sg e) + NC_lp e) eta (LNnc_deta mu sg eta u).
Proof. exact LNnc_deta_correct. Qed.
Theorem C03_top_noncentered_G_mu : forall (L : R -> R) mu sg eta u, is_derive L (Gnc_psi mu sg eta) u ->
  is_derive (fun m => L (Gnc_psi m sg eta)) mu (Gnc_dmu u).
Proof. exact Gnc_dmu_correct. Qed.
Theorem C03_top_noncentered_G_sigma : forall (L : R -> R) mu sg eta u, is_derive L (Gnc_psi mu sg eta) u ->
  is_derive (fun s => L (Gnc_psi mu s eta)) sg (Gnc_dsig eta u).
Proof. exact Gnc_dsig_correct. Qed.
Theorem C03_top_noncentered_LN_mu : forall (L : R -> R) mu sg eta u, is_derive L (LNnc_psi mu sg eta) u ->
  is_derive (fun m => L (LNnc_psi m sg eta)) mu (LNnc_dmu mu sg eta u).
Proof. exact LNnc_dmu_correct. Qed.
Theorem C03_top_noncentered_LN_sigma : forall (L : R -> R) mu sg eta u, is_derive L (LNnc_psi mu sg eta) u ->
  is_derive (fun s => L (LNnc_psi mu s eta)) sg (LNnc_dsig mu sg eta u).
Proof. exact LNnc_dsig_correct. Qed.
(* covariate coefficients: (d score / d shifted parameter) x covariate *)
Theorem C03_covariate_coefficient : forall (f : R -> R) theta pre b post pc c postc d, length pre = length pc ->
  is_derive f (cov_shift theta (pre ++ b :: post) (pc ++ c :: postc)) d ->
  is_derive (fun t => f (cov_shift theta (pre ++ t :: post) (pc ++ c :: postc))) b (d * c).
Proof. exact cov_chain_dbeta. Qed.

(* ---- posteriors: sum rule with the prior ---- *)
Theorem C03_posterior : forall (L P : R -> R) x dL dP, is_derive L x dL -> is_derive P x dP ->
  is_derive (fun t => L t + P t) x (dL + dP).
Proof. exact posterior_sum_rule. Qed.
