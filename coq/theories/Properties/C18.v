(* C18 — inference I/O keeps parameters, individuals and draws aligned.
   Statements only; proofs are `exact <lemma of Proofs/Inference.v>`.  All axiom-free.
   The flat vector of a hierarchical posterior is `layout_names block top n` / `layout_ids ids nb ntop` (block = the
   bottom-level parameter names of one individual, top = the population-level names; C17 proves that every
   population composition produces this layout and that the names are pairwise distinct). *)
From Coq Require Import List Bool String Arith.
From Chi Require Import Model.Mechanistic Model.Inference Proofs.Inference.
Import ListNotations.

(* (1) which vector positions carry the name of bottom parameter j: one per individual, same offset in each block *)
Theorem C18_positions : forall (block top : list string) n j,
  NoDup block -> j < List.length block -> ~ In (nth j block EmptyString) top ->
  positions (layout_names block top n) (nth j block EmptyString)
  = map (fun k => k * List.length block + j) (seq 0 n).
Proof. exact positions_bottom. Qed.

(* (2) the posterior dataset, draw by draw: bottom parameter j is one variable whose k-th individual entry is the
   raw entry at k*nb + j — the entry labelled (name j, individual k); top parameter t is a scalar variable holding the
   raw entry n*nb + t *)
Theorem C18_dataset_bottom : forall (V : Type) (d : V) (block top : list string) n v j,
  NoDup (block ++ top) -> 0 < n -> j < List.length block ->
  lookup V (nth j block EmptyString) (format_draw V d (layout_names block top n) top v)
  = Some (PerIndividual (map (fun k => nth (k * List.length block + j) v d) (seq 0 n))).
Proof. exact dataset_bottom. Qed.
Theorem C18_dataset_top : forall (V : Type) (d : V) (block top : list string) n v t,
  NoDup (block ++ top) -> t < List.length top ->
  lookup V (nth t top EmptyString) (format_draw V d (layout_names block top n) top v)
  = Some (Scalar (nth (n * List.length block + t) v d)).
Proof. exact dataset_top. Qed.

(* (3) the IDs attached to vector positions (and hence to table rows and dataset coordinates) *)
Theorem C18_ids_bottom : forall ids nb ntop k j,
  k < List.length ids -> j < nb ->
  nth (k * nb + j) (layout_ids ids nb ntop) None = Some (nth k ids EmptyString).
Proof. exact layout_ids_bottom. Qed.
Theorem C18_ids_top : forall ids nb ntop t,
  t < ntop -> nth (List.length ids * nb + t) (layout_ids ids nb ntop) (Some EmptyString) = None.
Proof. exact layout_ids_top. Qed.

(* (4) reading the dataset back for individual k (pointwise log-likelihoods, posterior predictive models) returns
   that individual's own entries followed by the population-level entries *)
Theorem C18_read_back : forall (V : Type) (d : V) (block top : list string) n v k,
  NoDup (block ++ top) -> k < n ->
  read_back V (format_draw V d (layout_names block top n) top v) k (block ++ top)
  = map (fun j => Some (nth (k * List.length block + j) v d)) (seq 0 (List.length block))
    ++ map (fun t => Some (nth (n * List.length block + t) v d)) (seq 0 (List.length top)).
Proof. exact read_back_individual. Qed.

(* (5) initial points: dimension, individual-level entries = the population draw of that individual for that
   (non-special) model dimension, population-level entries = the prior draw *)
Theorem C18_init_length : forall (V : Type) (d : V) keep (pop : list (list V)) prior,
  (forall row, In row pop -> List.length row = List.length keep) ->
  List.length (init_vector V keep pop prior)
  = List.length pop * List.length (true_positions keep 0) + List.length prior.
Proof. exact init_vector_length. Qed.
Theorem C18_init_bottom : forall (V : Type) (d : V) keep (pop : list (list V)) prior i r,
  (forall row, In row pop -> List.length row = List.length keep) ->
  i < List.length pop -> r < List.length (true_positions keep 0) ->
  nth (i * List.length (true_positions keep 0) + r) (init_vector V keep pop prior) d
  = nth (nth r (true_positions keep 0) 0) (nth i pop []) d.
Proof. exact init_vector_bottom. Qed.
Theorem C18_init_top : forall (V : Type) (d : V) keep (pop : list (list V)) prior t,
  (forall row, In row pop -> List.length row = List.length keep) ->
  nth (List.length pop * List.length (true_positions keep 0) + t) (init_vector V keep pop prior) d = nth t prior d.
Proof. exact init_vector_top. Qed.

(* (6) optimisation tables: one row per vector position, pairing estimate, name, ID, score and run *)
Theorem C18_table_row : forall (V : Type) (d : V) (S R : Type) (ids : list (option string)) names (est : list V)
    (s : S) (r : R) k,
  List.length ids = List.length names -> List.length est = List.length names -> k < List.length names ->
  nth k (table_rows V ids names est s r) (None, EmptyString, d, s, r)
  = (nth k ids None, nth k names EmptyString, nth k est d, s, r).
Proof. exact table_row. Qed.
Theorem C18_table_length : forall (V S R : Type) (ids : list (option string)) names (est : list V) (s : S) (r : R),
  List.length ids = List.length names -> List.length est = List.length names ->
  List.length (table_rows V ids names est s r) = List.length names.
Proof. exact table_length. Qed.
