(* C09 — simulation returns the ODE solution and its derivatives in parameter order.
   Statements only; proofs are `exact <lemma of Proofs/Mechanistic.v>`.
   A model file is described by the solver's view of it: qualified state names in declaration order (the order
   myokit.Simulation.set_state expects) and literal constant names in declaration order. *)
From Coq Require Import List Bool String Arith.
From Chi Require Import Model.Mechanistic Model.Fixing Proofs.Mechanistic.
Import ListNotations.

(* (1) published order: sorted states then sorted literal constants; counts agree *)
Theorem C09_published_length : forall m, List.length (parameter_names m) = n_parameters m.
Proof. exact parameter_names_length. Qed.

(* (2) np.argsort(np.argsort(names)) maps the declaration position of a state to its published position, for every
   declaration order *)
Theorem C09_original_order : forall (names : list string) j,
  j < List.length names ->
  let q := argsort Nat.leb (argsort String.leb names) in
  nth j q 0 < List.length names /\
  nth (nth j q 0) (isort String.leb names) EmptyString = nth j names EmptyString.
Proof. exact original_order_rank. Qed.

(* (3) assignment: after the calls simulate() makes, every published parameter name — state or constant — is
   bound inside the solver to the vector entry at its published position *)
Theorem C09_assignment : forall (V : Type) (d : V) (plus1 : V -> V) (m : sbml) (outs : list string)
    (th times : list V) i,
  NoDup (decl_states m ++ decl_consts m) -> List.length th = n_parameters m -> i < n_parameters m ->
  assigned V m (simulate_calls V d plus1 m outs th times) (nth i (parameter_names m) EmptyString)
  = Some (nth i th d).
Proof. exact assignment. Qed.

(* (4) what is logged: exactly the selected outputs in their order, at the requested times *)
Theorem C09_logged : forall (V : Type) (d : V) (plus1 : V -> V) (m : sbml) (outs : list string) (th times : list V),
  run_of V (simulate_calls V d plus1 m outs th times) = Some (plus1 (last times d), outs, times).
Proof. exact logged. Qed.

(* (5) with the solver as an oracle that integrates what it is handed: simulate = the initial-value problem in
   which entry i is assigned to published name i, for the selected outputs in their order *)
Theorem C09_simulate_is_ivp : forall (V Y : Type) (d : V) (plus1 : V -> V)
    (solver : sbml -> list (call V) -> Y) (ivp : sbml -> (string -> option V) -> list string -> list V -> Y),
  (forall m cs du lg ts, run_of V cs = Some (du, lg, ts) -> solver m cs = ivp m (assigned V m cs) lg ts) ->
  (forall m a b lg ts, (forall n, In n (parameter_names m) -> a n = b n) -> ivp m a lg ts = ivp m b lg ts) ->
  forall (m : sbml) (outs : list string) (th times : list V),
  NoDup (decl_states m ++ decl_consts m) -> List.length th = n_parameters m ->
  solver m (simulate_calls V d plus1 m outs th times) = ivp m (by_position V d m th) outs times.
Proof. exact simulate_is_ivp. Qed.

(* (6) sensitivities: the request handed to the solver lists, in published order, the initial value of each
   selected state and each selected constant — all parameters by default, and for a reduced model exactly the
   free ones *)
Theorem C09_sens_all : forall (m : sbml) (publics : list string),
  List.length publics = n_parameters m ->
  sens_request m publics None = map target_name (param_targets m).
Proof. exact sens_request_all. Qed.
Theorem C09_sens_selected : forall (m : sbml) (publics : list string) (sel : option (list string)),
  sens_request m publics sel =
  map target_name (map snd (filter (fun p => selected sel (fst p)) (combine publics (param_targets m)))).
Proof. exact sens_request_spec. Qed.
Theorem C09_sens_reduced : forall (V : Type) (m : sbml) (s : state V),
  NoDup (map fst s) ->
  sens_request m (map fst s) (Some (free_names s)) = map target_name (restrict s (param_targets m)).
Proof. exact reduced_sens_request. Qed.
