(* C04 — Error models are documented normalised densities with exact sensitivities.
   Only statements here; every proof is `exact <lemma of Proofs/ErrorModels.v>`.
   Models: Model/ErrorModels.v (hand-written from chi/_error_models.py, tied by harness/c04.py).
   G = Gaussian, MG = multiplicative Gaussian, CMG = constant + multiplicative Gaussian, LN = log-normal. *)
From Coq Require Import Reals Lra List.
From Coquelicot Require Import Coquelicot.
From Chi Require Import Base.RSum Base.Score Base.Normal Model.ErrorModels Proofs.ErrorModels.
Import ListNotations.
Open Scope R_scope.

(* ---- (1) the total equals the sum of the pointwise values, any length -------------------------- *)
Theorem C04_G_total_is_sum : forall s ms ys, length ms = length ys ->
  G_total s ms ys = Rsum (map (fun p => G_pw s (fst p) (snd p)) (combine ms ys)).
Proof. exact G_total_is_sum. Qed.
Theorem C04_MG_total_is_sum : forall sr ms ys, length ms = length ys ->
  MG_total sr ms ys = Rsum (map (fun p => MG_pw sr (fst p) (snd p)) (combine ms ys)).
Proof. exact MG_total_is_sum. Qed.
Theorem C04_CMG_total_is_sum : forall sb sr ms ys, length ms = length ys ->
  CMG_total sb sr ms ys = Rsum (map (fun p => CMG_pw sb sr (fst p) (snd p)) (combine ms ys)).
Proof. exact CMG_total_is_sum. Qed.
Theorem C04_LN_total_is_sum : forall s ms ys, length ms = length ys ->
  LN_total s ms ys = Rsum (map (fun p => LN_pw s (fst p) (snd p)) (combine ms ys)).
Proof. exact LN_total_is_sum. Qed.

(* ---- (2) exp(pointwise value) is the documented density ---------------------------------------- *)
Theorem C04_G_density : forall s m y, 0 < s -> exp (G_pw s m y) = normal_pdf s m y.
Proof. exact G_density. Qed.
Theorem C04_MG_density : forall sr m y, 0 < sr * m -> exp (MG_pw sr m y) = normal_pdf (sr * m) m y.
Proof. exact MG_density. Qed.
Theorem C04_CMG_density : forall sb sr m y, 0 < sb + sr * m ->
  exp (CMG_pw sb sr m y) = normal_pdf (sb + sr * m) m y.
Proof. exact CMG_density. Qed.
Theorem C04_LN_density : forall s m y, 0 < s -> 0 < m -> 0 < y ->
  exp (LN_pw s m y) = lognormal_pdf s (ln m - s^2 / 2) y.
Proof. exact LN_density. Qed.

(* ---- (3) which integrates to one over the measurable values ------------------------------------ *)
(* mass of every interval = standard normal mass of the transformed interval (push-forward) *)
Theorem C04_G_interval_mass : forall s m a b, 0 < s ->
  is_RInt (fun y => exp (G_pw s m y)) a b (RInt phi ((a - m) / s) ((b - m) / s)).
Proof. exact G_interval_mass. Qed.
Theorem C04_CMG_interval_mass : forall sb sr m a b, 0 < sb + sr * m ->
  is_RInt (fun y => exp (CMG_pw sb sr m y)) a b
          (RInt phi ((a - m) / (sb + sr * m)) ((b - m) / (sb + sr * m))).
Proof. exact CMG_interval_mass. Qed.
Theorem C04_LN_interval_mass : forall s m a b, 0 < s -> 0 < m -> 0 < a -> a < b ->
  is_RInt (fun y => exp (LN_pw s m y)) a b (RInt phi (LN_g s m a) (LN_g s m b)).
Proof. exact LN_interval_mass. Qed.
(* total mass one: limits of the masses of intervals exhausting the support.  No premise about the
   Gaussian integral: it is proved in Base/GaussInt.v. *)
Theorem C04_G_normalised : forall s m, 0 < s ->
  is_lim (fun b => RInt (fun y => exp (G_pw s m y)) (m - b) (m + b)) p_infty 1.
Proof. exact G_normalised. Qed.
Theorem C04_MG_normalised : forall sr m, 0 < sr * m ->
  is_lim (fun b => RInt (fun y => exp (MG_pw sr m y)) (m - b) (m + b)) p_infty 1.
Proof. exact MG_normalised. Qed.
Theorem C04_CMG_normalised : forall sb sr m, 0 < sb + sr * m ->
  is_lim (fun b => RInt (fun y => exp (CMG_pw sb sr m y)) (m - b) (m + b)) p_infty 1.
Proof. exact CMG_normalised. Qed.
Theorem C04_LN_normalised : forall s m, 0 < s -> 0 < m ->
  is_lim (fun t => RInt (fun y => exp (LN_pw s m y))
                        (m * exp (- s^2 / 2 - s * t)) (m * exp (- s^2 / 2 + s * t))) p_infty 1.
Proof. exact LN_total_mass. Qed.

(* ---- (4) non-positive scale parameters (non-positive outputs, LN) score minus infinity --------- *)
Theorem C04_G_guard : forall s ms ys cols, s <= 0 ->
  G_ll s ms ys = NegInf /\ fst (G_S1 s ms ys cols) = NegInf /\
  G_pointwise s ms ys = map (fun _ => NegInf) ms.
Proof. exact G_guard. Qed.
Theorem C04_MG_guard : forall sr ms ys cols, sr <= 0 ->
  MG_ll sr ms ys = NegInf /\ fst (MG_S1 sr ms ys cols) = NegInf /\
  MG_pointwise sr ms ys = map (fun _ => NegInf) ms.
Proof. exact MG_guard. Qed.
Theorem C04_CMG_guard : forall sb sr ms ys cols, sb <= 0 \/ sr <= 0 ->
  CMG_ll sb sr ms ys = NegInf /\ fst (CMG_S1 sb sr ms ys cols) = NegInf /\
  CMG_pointwise sb sr ms ys = map (fun _ => NegInf) ms.
Proof. exact CMG_guard_neginf. Qed.
Theorem C04_LN_guard : forall s ms ys cols, s <= 0 \/ (exists m, In m ms /\ m <= 0) ->
  LN_ll s ms ys = NegInf /\ fst (LN_S1 s ms ys cols) = NegInf /\
  LN_pointwise s ms ys = map (fun _ => NegInf) ms.
Proof. exact LN_guard_neginf. Qed.

(* ---- (5) the returned sensitivities are the derivatives ----------------------------------------
   `os` is any list of observations; `out o` is the model output of observation o as a function of the
   mechanistic parameter that moves, `sens o` the output sensitivity chi is handed for it (so the
   statement holds for every column of a sensitivity matrix of any width), `yv o` the measurement. *)
Theorem C04_G_dpsi : forall s os x, 0 < s ->
  (forall o, In o os -> is_derive (out o) x (sens o)) ->
  is_derive (fun t => G_total s (outs os t) (ysof os)) x (G_dpsi s (outs os x) (ysof os) (sensof os)).
Proof. exact G_dpsi_correct. Qed.
Theorem C04_G_dsigma : forall s ms ys, 0 < s -> length ms = length ys ->
  is_derive (fun t => G_total t ms ys) s (G_dsigma s ms ys).
Proof. exact G_dsigma_correct. Qed.
Theorem C04_MG_dpsi : forall sr os x,
  (forall o, In o os -> 0 < sr * out o x /\ is_derive (out o) x (sens o)) ->
  is_derive (fun t => MG_total sr (outs os t) (ysof os)) x
            (MG_dpsi sr (outs os x) (ysof os) (sensof os)).
Proof. exact MG_dpsi_correct. Qed.
Theorem C04_MG_dsigma : forall sr ms ys, length ms = length ys -> (forall m, In m ms -> 0 < sr * m) ->
  is_derive (fun t => MG_total t ms ys) sr (MG_dsigma sr ms ys).
Proof. exact MG_dsigma_correct. Qed.
Theorem C04_CMG_dpsi : forall sb sr os x,
  (forall o, In o os -> 0 < sb + sr * out o x /\ is_derive (out o) x (sens o)) ->
  is_derive (fun t => CMG_total sb sr (outs os t) (ysof os)) x
            (CMG_dpsi sb sr (outs os x) (ysof os) (sensof os)).
Proof. exact CMG_dpsi_correct. Qed.
Theorem C04_CMG_dsigma_base : forall sb sr ms ys,
  length ms = length ys -> (forall m, In m ms -> 0 < sb + sr * m) ->
  is_derive (fun t => CMG_total t sr ms ys) sb (CMG_dsb sb sr ms ys).
Proof. exact CMG_dsb_correct. Qed.
Theorem C04_CMG_dsigma_rel : forall sb sr ms ys,
  length ms = length ys -> (forall m, In m ms -> 0 < sb + sr * m) ->
  is_derive (fun t => CMG_total sb t ms ys) sr (CMG_dsr sb sr ms ys).
Proof. exact CMG_dsr_correct. Qed.
Theorem C04_LN_dpsi : forall s os x, 0 < s ->
  (forall o, In o os -> 0 < out o x /\ is_derive (out o) x (sens o)) ->
  is_derive (fun t => LN_total s (outs os t) (ysof os)) x
            (LN_dpsi s (outs os x) (ysof os) (sensof os)).
Proof. exact LN_dpsi_correct. Qed.
Theorem C04_LN_dsigma : forall s ms ys, 0 < s -> length ms = length ys ->
  is_derive (fun t => LN_total t ms ys) s (LN_dsigma s ms ys).
Proof. exact LN_dsigma_correct. Qed.

(* ---- (6) the score returned with the sensitivities is the plain score -------------------------- *)
Theorem C04_G_S1_score : forall s ms ys cols, 0 < s ->
  fst (G_S1 s ms ys cols) = G_ll s ms ys /\ G_ll s ms ys = Fin (G_total s ms ys).
Proof. exact G_entry_points_agree. Qed.
Theorem C04_MG_S1_score : forall sr ms ys cols, 0 < sr ->
  fst (MG_S1 sr ms ys cols) = MG_ll sr ms ys /\ MG_ll sr ms ys = Fin (MG_total sr ms ys).
Proof. exact MG_entry_points_agree. Qed.
Theorem C04_CMG_S1_score : forall sb sr ms ys cols, 0 < sb -> 0 < sr ->
  fst (CMG_S1 sb sr ms ys cols) = CMG_ll sb sr ms ys /\ CMG_ll sb sr ms ys = Fin (CMG_total sb sr ms ys).
Proof. exact CMG_entry_points_agree. Qed.
Theorem C04_LN_S1_score : forall s ms ys cols, 0 < s -> (forall m, In m ms -> 0 < m) ->
  fst (LN_S1 s ms ys cols) = LN_ll s ms ys /\ LN_ll s ms ys = Fin (LN_total s ms ys).
Proof. exact LN_entry_points_agree. Qed.

(* ---- non-vacuity: the hypotheses are satisfiable on a concrete two-observation case -------------- *)
Example C04_nonvacuous :
  let os := [ {| out := fun x => 2 * x; sens := 2; yv := 3 |};
              {| out := fun x => x + 1; sens := 1; yv := 1 |} ] in
  0 < 1/2 /\ (forall o, In o os -> 0 < out o 1 /\ is_derive (out o) 1 (sens o)).
Proof.
  simpl. split; [lra|]. intros o [<-|[<-|[]]]; simpl; split; try lra; auto_derive; auto; lra.
Qed.
