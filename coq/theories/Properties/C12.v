(* C12 — population filters use the documented estimators; missing-data invariant.
   Statements only (proofs: Proofs/Filters.v).  A cell = one (observable, time point): xs = simulated
   measurements, ys = the non-missing measured values.  A filter's score is the sum of its cell scores. *)
From Coq Require Import Reals List Sorting.Permutation.
From Coquelicot Require Import Coquelicot.
From Chi Require Import Base.RSum Model.Filters Proofs.Filters.
Import ListNotations.
Open Scope R_scope.

(* the max-shift inside chi's logsumexp cancels (any shift) *)
Theorem C12_lse_shift : forall l m, l <> [] ->
  ln (Rsum (map exp (map (fun a => a - m) l))) + m = lse l.
Proof. exact lse_shift. Qed.

(* scores = sums over the non-missing measurements of the documented log-densities with the documented
   empirical estimates from the simulated measurements of the same cell *)
Theorem C12_G_score : forall xs ys, 0 < var xs ->
  GF_cell xs ys = Rsum (map (fun y => ln (normal_pdf_v (var xs) (mean xs) y)) ys).
Proof. exact G_score. Qed.
Theorem C12_LN_score : forall xs ys, 0 < var (map ln xs) -> (forall y, In y ys -> 0 < y) ->
  LNF_cell xs ys = Rsum (map (fun y => ln (lognormal_pdf_v (var (map ln xs)) (mean (map ln xs)) y)) ys).
Proof. exact LN_score. Qed.
Theorem C12_GKDE_score : forall xs ys, xs <> [] -> 0 < bw2 xs ->
  GKDE_cell xs ys = Rsum (map (fun y => ln (Rsum (map (fun x => normal_pdf_v (bw2 xs) x y) xs) / nR xs)) ys).
Proof. exact GKDE_score. Qed.
Theorem C12_LNKDE_score : forall xs ys, xs <> [] -> 0 < bw2 (map ln xs) -> (forall y, In y ys -> 0 < y) ->
  LNKDE_cell xs ys
  = Rsum (map (fun y => ln (Rsum (map (fun l => lognormal_pdf_v (bw2 (map ln xs)) l y) (map ln xs)) / nR xs)) ys).
Proof. exact LNKDE_score. Qed.
Theorem C12_GMIX_score : forall k m xs ys,
  blocks k m xs <> [] -> (forall b, In b (blocks k m xs) -> 0 < var b) ->
  GMIX_cell k m xs ys
  = Rsum (map (fun y => ln (Rsum (map (fun b => normal_pdf_v (var b) (mean b) y) (blocks k m xs)) / INR k)) ys).
Proof. exact GMIX_score. Qed.

(* the empirical variance chi computes (np.var, ddof=1) in sums-of-powers form; centred values sum to 0 *)
Theorem C12_var_two_forms : forall xs, xs <> [] -> nR xs <> 1 ->
  var xs = (Rsum (map (fun x => x^2) xs) - (Rsum xs)^2 / nR xs) / (nR xs - 1).
Proof. exact var_two_forms. Qed.
Theorem C12_centered_sum_zero : forall xs, xs <> [] -> Rsum (map (fun x => x - mean xs) xs) = 0.
Proof. exact centered_sum_zero. Qed.

(* permuting measured individuals does not change any score (missing values never enter a cell, so
   padding with missing values does not either) *)
Theorem C12_permute_individuals : forall xs ys ys' k m, Permutation ys ys' ->
  GF_cell xs ys = GF_cell xs ys' /\ LNF_cell xs ys = LNF_cell xs ys' /\
  GKDE_cell xs ys = GKDE_cell xs ys' /\ LNKDE_cell xs ys = LNKDE_cell xs ys' /\
  GMIX_cell k m xs ys = GMIX_cell k m xs ys'.
Proof. exact permute_individuals. Qed.

(* the Gaussian filter's sensitivity is the derivative of the score with respect to the simulated
   measurement (at any position of the cell, for any number >= 2 of simulated individuals) *)
Theorem C12_G_grad : forall pre post x ys,
  let xs := pre ++ x :: post in
  1 < nR xs -> 0 < var xs ->
  is_derive (fun t => GF_cell (pre ++ t :: post) ys) x (GF_grad xs ys x).
Proof. exact G_grad. Qed.

Theorem C12_LN_grad : forall pre post x ys,
  let xs := pre ++ x :: post in
  0 < x -> 1 < nR xs -> 0 < var (map ln xs) ->
  is_derive (fun t => LNF_cell (pre ++ t :: post) ys) x (LNF_grad xs ys x).
Proof. exact LN_grad. Qed.

Theorem C12_GKDE_grad : forall pre post x ys,
  let xs := pre ++ x :: post in
  1 < nR xs -> 0 < var xs ->
  is_derive (fun t => GKDE_cell (pre ++ t :: post) ys) x (GKDE_grad xs ys x).
Proof. exact GKDE_grad_correct. Qed.
Theorem C12_LNKDE_grad : forall pre post x ys,
  let xs := pre ++ x :: post in
  0 < x -> 1 < nR xs -> 0 < var (map ln xs) ->
  is_derive (fun t => LNKDE_cell (pre ++ t :: post) ys) x (LNKDE_grad xs ys x).
Proof. exact LNKDE_grad_correct. Qed.

(* Gaussian mixture filter: the cell as a function of its blocks (GMIX_cell k m xs ys is GMIX_cell_blocks k
   (blocks k m xs) ys by definition); x is a simulated value of block b *)
Theorem C12_GMIX_cell_blocks : forall k m xs ys, GMIX_cell k m xs ys = GMIX_cell_blocks k (blocks k m xs) ys.
Proof. exact GMIX_cell_is_blocks. Qed.
Theorem C12_GMIX_grad : forall k m xs ys (bs1 bs2 : list (list R)) bpre bpost x,
  let b := bpre ++ x :: bpost in
  blocks k m xs = bs1 ++ b :: bs2 -> nR b = INR m -> 1 < INR m -> 0 < var b ->
  is_derive (fun t => GMIX_cell_blocks k (bs1 ++ (bpre ++ t :: bpost) :: bs2) ys) x (GMIX_grad k m xs ys b x).
Proof. exact GMIX_grad_model. Qed.

(* ---- re-ordering and splitting time points, through any nesting of composed filters (Model/FilterOrder.v) ---- *)
Close Scope R_scope.
From Chi Require Import Model.FilterOrder Proofs.FilterOrder.
(* every simulated time point j is scored against the data column the filter presents at position j: the code's
   argsort / fancy indexing / slicing realises, as a set of (data column, simulated column) pairs, the specification *)
Theorem C12_order_pairs : forall (S D : Type) (s0 : S) (d0 : D) (t : ftree D), fwf D t ->
  forall sims, length sims = n_times D t ->
  Permutation (pairs S D s0 d0 t sims) (combine (presented D d0 t) sims).
Proof. exact pairs_spec. Qed.
(* the sensitivities come back in the ordering of the input *)
Theorem C12_order_sensitivities : forall (D G : Type) (d0 : D) (g0 : G) (leaf_sens : D -> G) (t : ftree D), fwf D t ->
  sens D G d0 g0 leaf_sens t = map leaf_sens (presented D d0 t).
Proof. exact sens_spec. Qed.
(* numpy.argsort of a permutation is its inverse (what the composed filter relies on) *)
Theorem C12_argsort_inverse : forall order n j, Permutation order (seq 0 n) -> j < n ->
  nth (nth j order 0) (argsort order) 0 = j /\ nth (nth j (argsort order) 0) order 0 = j.
Proof. exact argsort_inverse. Qed.
(* a composition that unpacks nested compositions and drops their orders scores other pairs *)
Theorem C12_unpacking_refuted : exists (t : ftree nat) (flatten : ftree nat) (sims : list nat),
  fwf nat t /\ length sims = n_times nat t /\
  flatten = FNode nat None [FLeaf nat [10] None; FLeaf nat [11] None] /\
  ~ Permutation (pairs nat nat 0 0 flatten sims) (pairs nat nat 0 0 t sims).
Proof. exact unpacking_refuted. Qed.
