(* C16 — seeds fully determine random results; random streams are independent (partial, see DESIGN).
   Statements only; proofs are `exact <lemma of Proofs/Seeds.v>`.  All axiom-free.
   The theorems are about which positions of which NumPy stream a call reads (Model/Seeds.v); that distinct
   positions, and streams of distinct seeds, carry independent variates is NumPy's contract. *)
From Coq Require Import List Arith Bool.
From Chi Require Import Model.Seeds Proofs.Seeds.
Import ListNotations.

Theorem C16_streams_disjoint : forall a ks, NoDup (concat (fst (shared_plan a ks))).
Proof. exact shared_plan_disjoint. Qed.
Theorem C16_int_seed_determines : forall s ks, shared_plan (IntSeed s) ks = blocks (fresh s) ks.
Proof. exact int_seed_determines. Qed.
Theorem C16_generator_advanced : forall g ks, snd (shared_plan (GenSeed g) ks) = advance g (list_sum ks).
Proof. exact generator_advanced. Qed.
Theorem C16_second_call_disjoint : forall g ks ks' p,
  In p (concat (fst (shared_plan (GenSeed g) ks))) ->
  ~ In p (concat (fst (shared_plan (GenSeed (snd (shared_plan (GenSeed g) ks))) ks'))).
Proof. exact second_call_disjoint. Qed.
Theorem C16_restarting_overlaps : forall s k k', 0 < k -> 0 < k' ->
  exists p, In p (reads (fresh s) k) /\ In p (reads (fresh s) k').
Proof. exact restarting_overlaps. Qed.
