(* C16 — seeds fully determine random results; random streams are independent (partial, see DESIGN).
   Statements only; proofs are `exact <lemma of Proofs/Seeds.v>`.  All axiom-free.
   The theorems are about which positions of which NumPy stream a call reads (Model/Seeds.v); that distinct
   positions, and streams of distinct seeds, carry independent variates is NumPy's contract. *)
From Coq Require Import List Arith Bool.
From Chi Require Import Model.Seeds Proofs.Seeds.
Import ListNotations.

Theorem C16_streams_disjoint : forall a ks, NoDup (concat (fst (shared_plan a ks))).
Proof. exact shared_plan_disjoint. Qed.
Theorem C16_int_seed_determines : forall s ks, shared_plan (IntSeed s) ks = blocks (fresh s) ks.
Proof. exact int_seed_determines. Qed.
Theorem C16_generator_advanced : forall g ks, snd (shared_plan (GenSeed g) ks) = advance g (list_sum ks).
Proof. exact generator_advanced. Qed.
Theorem C16_second_call_disjoint : forall g ks ks' p,
  In p (concat (fst (shared_plan (GenSeed g) ks))) ->
  ~ In p (concat (fst (shared_plan (GenSeed (snd (shared_plan (GenSeed g) ks))) ks'))).
Proof. exact second_call_disjoint. Qed.
Theorem C16_restarting_overlaps : forall s k k', 0 < k -> 0 < k' ->
  exists p, In p (reads (fresh s) k) /\ In p (reads (fresh s) k').
Proof. exact restarting_overlaps. Qed.

(* every sub-sampler reads exactly as many variates as it needs; sampling with one generator in two successive
   calls reads exactly the positions of one call with the concatenated requests (so earlier consumers are
   unaffected by later ones); streams of different integer seeds never share a position *)
Theorem C16_block_sizes : forall g ks, map (@List.length position) (fst (blocks g ks)) = ks.
Proof. exact blocks_lengths. Qed.
Theorem C16_calls_compose : forall g ks ks',
  blocks g (ks ++ ks') =
    (fst (blocks g ks) ++ fst (blocks (snd (blocks g ks)) ks'), snd (blocks (snd (blocks g ks)) ks')).
Proof. exact blocks_app. Qed.
Theorem C16_distinct_seeds_disjoint : forall s s' ks ks' p, s <> s' ->
  In p (concat (fst (shared_plan (IntSeed s) ks))) -> ~ In p (concat (fst (shared_plan (IntSeed s') ks'))).
Proof. exact distinct_seeds_disjoint. Qed.
Example C16_compose_nonvacuous :
  fst (blocks (fresh 7) ([2; 1] ++ [3])) = [[(7, 0); (7, 1)]; [(7, 2)]; [(7, 3); (7, 4); (7, 5)]].
Proof. vm_compute. reflexivity. Qed.
