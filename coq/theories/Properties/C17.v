(* C17 — parameter counts, names, vector lengths and gradient lengths always agree.
   Statements only (proofs: Proofs/Layout.v, axiom-free).  A composition is a list of sub-model descriptors
   (kind, dimensionality, optional covariate wrapper with its normalised selection); names are built from an
   abstract naming scheme. *)
From Coq Require Import List Arith Bool.
From Chi Require Import Model.Layout Proofs.Layout.
Import ListNotations.

(* for EVERY composition and number of individuals: number of names = number of IDs = n_parameters *)
Theorem C17_lengths : forall (N : Type) nm_param nm_cov nm_dim nm_id n_ids c,
  length (names N nm_param nm_cov nm_dim nm_id n_ids c) = N_parameters n_ids c /\
  length (ids n_ids c) = N_parameters n_ids c.
Proof. exact C17_lengths. Qed.

(* the IDs mark exactly the individual-level entries *)
Theorem C17_ids_mark_bottom : forall n_ids c k, k < N_parameters n_ids c ->
  (nth k (ids n_ids c) None <> None <-> k < N_bottom n_ids c).
Proof. exact C17_ids_mark_bottom. Qed.

(* the number of special dimensions removed from the bottom level is N_dim - N_hdim, for every composition *)
Theorem C17_special_count : forall c start, n_special (special_ranges start c) + N_hdim c = N_dim c.
Proof. exact special_ranges_count. Qed.

(* with an injective naming scheme whose three families (ID-prefixed likelihood names, population parameter
   names, covariate coefficient names) are disjoint, distinct parameters carry distinct names *)
Theorem C17_names_unique : forall (N : Type) nm_param nm_cov nm_dim nm_id,
  (forall i j a b, nm_id i a = nm_id j b -> i = j /\ a = b) ->
  (forall d e, nm_dim d = nm_dim e -> d = e) ->
  (forall i k p d i' k' p' d', nm_param i k p d = nm_param i' k' p' d' -> i = i' /\ p = p' /\ d = d') ->
  (forall i p d c i' p' d' c', nm_cov i p d c = nm_cov i' p' d' c' -> i = i' /\ p = p' /\ d = d' /\ c = c') ->
  (forall i a j k p d, nm_id i a <> nm_param j k p d) ->
  (forall i a j p d c, nm_id i a <> nm_cov j p d c) ->
  (forall i k p d j p' d' c, nm_param i k p d <> nm_cov j p' d' c) ->
  forall n_ids c, Forall sel_ok c -> NoDup (names N nm_param nm_cov nm_dim nm_id n_ids c).
Proof. exact names_unique. Qed.

Example C17_nonvacuous :
  let c := [ {| sk := KPooled; sdim := 2; scov := None |};
             {| sk := KGauss; sdim := 1; scov := Some (2, [(0, 0)]) |};
             {| sk := KHetero; sdim := 1; scov := None |} ] in
  N_parameters 3 c = 12 /\ N_bottom 3 c = 3 /\ special_ranges 0 c = [(0, 2); (3, 4)].
Proof. repeat split. Qed.
