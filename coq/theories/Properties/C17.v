(* C17 — parameter counts, names, vector lengths and gradient lengths always agree.
   Statements only (proofs: Proofs/Layout.v, axiom-free).  A composition is a list of sub-model descriptors
   (kind, dimensionality, optional covariate wrapper with its normalised selection); names are built from an
   abstract naming scheme. *)
From Coq Require Import List Arith Bool Lia.
From Chi Require Import Model.Layout Proofs.Layout Model.Nested Proofs.Nested.
Import ListNotations.

(* for EVERY composition and number of individuals: number of names = number of IDs = n_parameters *)
Theorem C17_lengths : forall (N : Type) nm_param nm_cov nm_dim nm_id n_ids c,
  length (names N nm_param nm_cov nm_dim nm_id n_ids c) = N_parameters n_ids c /\
  length (ids n_ids c) = N_parameters n_ids c.
Proof. exact C17_lengths. Qed.

(* the IDs mark exactly the individual-level entries *)
Theorem C17_ids_mark_bottom : forall n_ids c k, k < N_parameters n_ids c ->
  (nth k (ids n_ids c) None <> None <-> k < N_bottom n_ids c).
Proof. exact C17_ids_mark_bottom. Qed.

(* the number of special dimensions removed from the bottom level is N_dim - N_hdim, for every composition *)
Theorem C17_special_count : forall c start, n_special (special_ranges start c) + N_hdim c = N_dim c.
Proof. exact special_ranges_count. Qed.

(* with an injective naming scheme whose three families (ID-prefixed likelihood names, population parameter
   names, covariate coefficient names) are disjoint, distinct parameters carry distinct names *)
Theorem C17_names_unique : forall (N : Type) nm_param nm_cov nm_dim nm_id,
  (forall i j a b, nm_id i a = nm_id j b -> i = j /\ a = b) ->
  (forall d e, nm_dim d = nm_dim e -> d = e) ->
  (forall i k p d i' k' p' d', nm_param i k p d = nm_param i' k' p' d' -> i = i' /\ p = p' /\ d = d') ->
  (forall i p d c i' p' d' c', nm_cov i p d c = nm_cov i' p' d' c' -> i = i' /\ p = p' /\ d = d' /\ c = c') ->
  (forall i a j k p d, nm_id i a <> nm_param j k p d) ->
  (forall i a j p d c, nm_id i a <> nm_cov j p d c) ->
  (forall i k p d j p' d' c, nm_param i k p d <> nm_cov j p' d' c) ->
  forall n_ids c, Forall sel_ok c -> NoDup (names N nm_param nm_cov nm_dim nm_id n_ids c).
Proof. exact names_unique. Qed.

Example C17_nonvacuous :
  let c := [ {| sk := KPooled; sdim := 2; scov := None |};
             {| sk := KGauss; sdim := 1; scov := Some (2, [(0, 0)]) |};
             {| sk := KHetero; sdim := 1; scov := None |} ] in
  N_parameters 3 c = 12 /\ N_bottom 3 c = 3 /\ special_ranges 0 c = [(0, 2); (3, 4)].
Proof. repeat split. Qed.

(* ---- compositions of compositions (Model/Nested.v) ---- *)
(* what a nested composition reports (computed from its direct sub-models' reports only) is what the flat
   composition of its leaves reports: dimensions, population parameters, bottom-level dimensions, special ranges *)
Theorem C17_nested_reports : forall n_ids t,
  t_dim t = N_dim (flat t) /\ t_par n_ids t = N_top n_ids (flat t) /\ t_hdim t = N_hdim (flat t) /\
  t_special t = special_ranges 0 (flat t).
Proof. exact nested_reports. Qed.

(* the hierarchical sensitivities of EVERY nesting: bottom-level rows of the sub-models side by side, row by row,
   then the population-level entries in order; never an error *)
Theorem C17_nested_gradient : forall (V : Type) n (t : dtree V), 0 < n -> dwf V n t ->
  red V (width_fixed V) n t = Some (concat (rows_spec V n t) ++ top_spec V t).
Proof. exact red_fixed. Qed.

(* ... of the length the object reports: n_ids * bottom-level dimensions + population-level parameters *)
Theorem C17_nested_gradient_length : forall (V : Type) n (t : dtree V) ds, 0 < n -> dwf V n t ->
  red V (width_fixed V) n t = Some ds -> length ds = n * d_hdim V t + length (top_spec V t).
Proof. exact red_fixed_length. Qed.

(* ... and nesting does not matter: the rows and the population-level entries are those of the flat composition *)
Theorem C17_nesting_is_flat : forall (V : Type) n (t : dtree V), dwf V n t ->
  rows_spec V n t = hcat V n (map (rows_spec V n) (dflat V t)) /\
  top_spec V t = flat_map (top_spec V) (dflat V t).
Proof. exact nesting_is_flat. Qed.

(* the code before f4dfd54 reserved n_dim columns per sub-model: wrong exactly for nested compositions *)
Theorem C17_nested_old_code_refuted : exists n (t : dtree nat),
  0 < n /\ dwf nat n t /\ red nat (width_old nat) n t = None /\ red nat (width_fixed nat) n t <> None.
Proof. exact red_old_refuted. Qed.
Theorem C17_flat_old_code_agrees : forall (V : Type) n ts, 0 < n ->
  Forall (fun c => match c with
                   | DLeaf _ w rows _ => length (hd [] rows) = w \/ length (hd [] rows) = 0
                   | DNode _ _ => False
                   end) ts ->
  red V (width_old V) n (DNode V ts) = red V (width_fixed V) n (DNode V ts).
Proof. exact red_old_flat_ok. Qed.

(* number of individuals: however compositions are built from leaves and other compositions, every object below a
   composition works with the number of individuals the composition reports, also after set_n_ids *)
Theorem C17_n_ids_uniform : forall r, rwf r -> uniform (o_n (make build r)) (make build r).
Proof. exact built_uniform. Qed.
Theorem C17_n_ids_uniform_after_set : forall r k, rwf r -> uniform k (set_n k (make build r)).
Proof. exact built_set_n_uniform. Qed.
(* the constructor before b4ba354 *)
Theorem C17_old_constructor_refuted : exists r k,
  rwf r /\ o_n (make build_old r) = k /\ set_n k (make build_old r) = make build_old r /\
  ~ uniform k (make build_old r).
Proof. exact build_old_refuted. Qed.

Example C17_nested_nonvacuous :
  let t := DNode nat [DLeaf nat 2 [[]; []] [5; 6]; DNode nat [DLeaf nat 1 [[1]; [2]] [7; 8]; DLeaf nat 1 [[3]; [4]] [9]]] in
  dwf nat 2 t /\ red nat (width_fixed nat) 2 t = Some [1; 3; 2; 4; 5; 6; 7; 8; 9].
Proof. split; [cbn; repeat split; try lia; intros r [<-|[<-|[]]]; reflexivity | reflexivity]. Qed.
