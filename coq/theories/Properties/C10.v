(* C10 — dosing regimens deliver the specified amounts at the specified times.
   Statements only; proofs in Proofs/Dosing.v (discrete, axiom-free) and Proofs/DosingR.v (real analysis). *)
From Coq Require Import ZArith List Bool Reals.
From Coquelicot Require Import Coquelicot.
From Chi Require Import Model.Dosing Proofs.Dosing Proofs.DosingR.
Import ListNotations.

(* (1) rate: dose/duration during a scheduled interval, none outside *)
Theorem C10_rate : forall dose s d t, (0 < d)%R ->
  ((s <= t < s + d)%R -> pulse (dose / d) s d t = (dose / d)%R) /\
  ((t < s \/ s + d <= t)%R -> pulse (dose / d) s d t = 0%R).
Proof. exact pulse_rate. Qed.

(* (2) cumulative input: for ANY list of scheduled pulses and ANY time T, the integral of the dose rate
   over [0, T] is the sum over the pulses of rate x (part of the pulse that has elapsed) *)
Theorem C10_cumulative : forall ps T, pulses_ok ps -> (0 <= T)%R ->
  is_RInt (pace ps) 0 T (delivered ps T).
Proof. exact pace_integral. Qed.

(* (3) ... which, outside the infusion windows of a regimen of n doses (first at s, every p, each over
   d), is dose x the number of doses completed by then — the sum of the doses scheduled up to T *)
Theorem C10_sum_of_doses : forall dose s d p n T, (0 < d)%R -> outside s d p n T ->
  delivered (regimen_pulses dose s d p n) T = (dose * INR (completed s d p n T))%R.
Proof. exact delivered_regimen. Qed.
Theorem C10_regimen_pulses_ok : forall dose s d p n, (0 <= s)%R -> (0 < d)%R -> (0 <= p)%R ->
  pulses_ok (regimen_pulses dose s d p n).
Proof. exact regimen_pulses_ok. Qed.

(* (3b) for every schedule of non-negative rates the amount delivered up to T never decreases in T, lies between
   0 and the prescribed total (sum of rate x duration), is 0 before the first pulse starts and equals the
   prescribed total once the last one has ended; a regimen of n doses prescribes n x dose *)
Theorem C10_delivered_monotone : forall ps T1 T2, rates_nonneg ps -> (T1 <= T2)%R ->
  (delivered ps T1 <= delivered ps T2)%R.
Proof. exact delivered_mono. Qed.
Theorem C10_delivered_bounded : forall ps T, rates_nonneg ps -> pulses_ok ps ->
  (0 <= delivered ps T <= prescribed ps)%R.
Proof. exact delivered_bounded. Qed.
Theorem C10_nothing_before : forall ps T, pulses_ok ps ->
  List.Forall (fun p => (T <= snd (fst p))%R) ps -> delivered ps T = 0%R.
Proof. exact delivered_before. Qed.
Theorem C10_everything_after : forall ps T, pulses_ok ps ->
  List.Forall (fun p => (snd (fst p) + snd p <= T)%R) ps -> delivered ps T = prescribed ps.
Proof. exact delivered_after. Qed.
Theorem C10_regimen_prescribes : forall dose s d p n, (0 < d)%R ->
  prescribed (regimen_pulses dose s d p n) = (dose * INR n)%R.
Proof. exact prescribed_regimen. Qed.

(* (4) the regimen table computed by PredictiveModel.get_dosing_regimen lists exactly the dose events
   (time, duration, amount) the event applies up to the final time: single, finite and indefinite *)
Theorem C10_table_is_spec : forall e f, (0 <= ev_per e)%Z -> table_of_event e (Some f) = table_spec e f.
Proof. exact table_code_is_spec. Qed.
Theorem C10_table_exact : forall e f t d a, (0 <= ev_per e)%Z ->
  In (t, d, a) (table_spec e f) <->
  d = ev_dur e /\ a = ev_amt e /\
  exists k, delivers e k /\ t = (ev_st e + Z.of_nat k * ev_per e)%Z /\ (t <= f)%Z.
Proof. exact table_spec_exact. Qed.
(* which doses (dose, start, duration, period, num) schedules *)
Theorem C10_regimen_doses : forall dose s d p num k,
  delivers (regimen_event dose s d p num) k <->
  match p with
  | None => k = O
  | Some 0%Z => k = O
  | Some _ => match num with None => True | Some O => True | Some n => (k < n)%nat end
  end.
Proof. exact regimen_event_delivers. Qed.

(* (5) regimens derived from a dataset reproduce the individual's dose rows one to one *)
Theorem C10_dataset : forall bolus rows,
  table (events_of_rows bolus rows) None
  = map (fun r => (fst (fst r), match snd r with Some d => d | None => bolus end, snd (fst r))) rows.
Proof. exact dataset_table. Qed.

Example C10_nonvacuous :
  table_of_event (regimen_event 8 2 1 (Some 3%Z) None) (Some 9%Z) = [(2, 1, 8); (5, 1, 8); (8, 1, 8)]%Z.
Proof. vm_compute. reflexivity. Qed.
