(* C07 — covariate models shift the selected population parameters linearly.
   Statements only.  Real-valued part: Model/PopModels.v `cov_shift` (proofs in Proofs/PopModels.v);
   index bookkeeping: Model/Covariate.v (proofs in Proofs/Covariate.v, axiom-free). *)
From Coq Require Import Reals ZArith List Bool Arith.
From Coquelicot Require Import Coquelicot.
From Chi Require Import Base.RSum Model.PopModels Model.TimeGrid Model.Covariate Proofs.PopModels Proofs.Covariate.
Import ListNotations.

(* (1) with all coefficients or all covariates zero the shifted parameter is the original one, so the
   covariate model coincides with the underlying model *)
Theorem C07_zero_coefficients : forall theta chis n, cov_shift theta (repeat 0%R n) chis = theta.
Proof. exact cov_shift_zero_beta. Qed.
Theorem C07_zero_covariates : forall theta betas n, cov_shift theta betas (repeat 0%R n) = theta.
Proof. exact cov_shift_zero_chi. Qed.

(* (2) sensitivities: d vartheta / d theta_0 = 1 and d vartheta / d beta_c = chi_c, hence by the chain rule the
   sensitivity of any differentiable score w.r.t. beta_c is (d score / d vartheta) * chi_c *)
Theorem C07_dtheta0 : forall theta betas chis, is_derive (fun t => cov_shift t betas chis) theta 1%R.
Proof. exact cov_shift_dtheta. Qed.
Theorem C07_dbeta : forall theta pre b post pc c postc, length pre = length pc ->
  is_derive (fun t => cov_shift theta (pre ++ t :: post) (pc ++ c :: postc)) b c.
Proof. exact cov_shift_dbeta. Qed.
Theorem C07_chain_dbeta : forall (f : R -> R) theta pre b post pc c postc d, length pre = length pc ->
  is_derive f (cov_shift theta (pre ++ b :: post) (pc ++ c :: postc)) d ->
  is_derive (fun t => f (cov_shift theta (pre ++ t :: post) (pc ++ c :: postc))) b (d * c)%R.
Proof. exact cov_chain_dbeta. Qed.

(* (3) selections: any non-empty in-range list, in any order, with duplicates, is normalised to the same
   duplicate-free list of exactly the selected pairs *)
Theorem C07_selection_canonical : forall D sel1 sel2,
  (forall pd, In pd sel1 <-> In pd sel2) -> norm_sel D sel1 = norm_sel D sel2.
Proof. exact norm_sel_canonical. Qed.
Theorem C07_selection_exact : forall D sel pd, (forall q, In q sel -> (snd q < D)%nat) ->
  In pd (norm_sel D sel) <-> In pd sel.
Proof. exact norm_sel_In. Qed.
Theorem C07_selection_NoDup : forall D sel, (forall q, In q sel -> (snd q < D)%nat) -> NoDup (norm_sel D sel).
Proof. exact norm_sel_NoDup. Qed.

(* (4) the coefficient of the k-th selected pair and c-th covariate sits at a unique flat position *)
Theorem C07_beta_position : forall n_pop n_cov k c, (c < n_cov)%nat ->
  beta_of_pos n_pop n_cov (beta_pos n_pop n_cov k c) = (k, c).
Proof. exact beta_pos_roundtrip. Qed.
Theorem C07_beta_range : forall n_pop n_cov n_sel k c, (k < n_sel)%nat -> (c < n_cov)%nat ->
  (n_pop <= beta_pos n_pop n_cov k c < n_pop + n_sel * n_cov)%nat.
Proof. exact beta_pos_range. Qed.

Example C07_nonvacuous : norm_sel 2 [(1, 0); (0, 1); (1, 0); (0, 0)]%nat = [(0, 0); (0, 1); (1, 0)]%nat.
Proof. vm_compute. reflexivity. Qed.
