(* C05 — population models: documented densities, additive, exact sensitivities.
   Statements only (proofs: Proofs/PopModels.v).  One TERM = one (individual, dimension) pair; a population
   model's log-likelihood is the sum of its terms, a composed model's the sum over its sub-models
   (harness/popspec.py assembles the terms; chi's assembly is compared with it on every run). *)
From Coq Require Import Reals List.
From Coquelicot Require Import Coquelicot.
From Chi Require Import Base.RSum Base.Score Base.Normal Base.Phi Model.PopModels Proofs.PopModels.
Import ListNotations.
Open Scope R_scope.

(* ---- the terms are the documented log-densities ---- *)
Theorem C05_G_density : forall mu sg psi, 0 < sg -> exp (G_lp mu sg psi) = normal_pdf_s mu sg psi.
Proof. exact G_lp_density. Qed.
Theorem C05_LN_density : forall mu sg psi, 0 < sg -> 0 < psi ->
  exp (LN_lp mu sg psi) = lognormal_pdf_s mu sg psi.
Proof. exact LN_lp_density. Qed.
Theorem C05_TG_density : forall mu sg psi, 0 < sg -> Phi (- mu / sg) < 1 ->
  exp (TG_lp mu sg psi) = truncnormal_pdf_s mu sg psi.
Proof. exact TG_lp_density. Qed.
Theorem C05_NC_density : forall eta, exp (NC_lp eta) = phi eta.     (* non-centred: standard normal *)
Proof. exact NC_lp_density. Qed.
Theorem C05_point_mass : forall theta psi,
  (psi = theta -> delta_lp theta psi = Fin 0) /\ (psi <> theta -> delta_lp theta psi = NegInf).
Proof. exact delta_lp_spec. Qed.

(* ---- sensitivities w.r.t. the individual parameter and the population parameters are the derivatives ---- *)
Theorem C05_G_dpsi : forall mu sg psi, 0 < sg -> is_derive (fun t => G_lp mu sg t) psi (G_dpsi mu sg psi).
Proof. exact G_dpsi_correct. Qed.
Theorem C05_G_dmu : forall mu sg psi, 0 < sg -> is_derive (fun t => G_lp t sg psi) mu (G_dmu mu sg psi).
Proof. exact G_dmu_correct. Qed.
Theorem C05_G_dsigma : forall mu sg psi, 0 < sg -> is_derive (fun t => G_lp mu t psi) sg (G_dsig mu sg psi).
Proof. exact G_dsig_correct. Qed.
Theorem C05_LN_dpsi : forall mu sg psi, 0 < sg -> 0 < psi ->
  is_derive (fun t => LN_lp mu sg t) psi (LN_dpsi mu sg psi).
Proof. exact LN_dpsi_correct. Qed.
Theorem C05_LN_dmu : forall mu sg psi, 0 < sg -> is_derive (fun t => LN_lp t sg psi) mu (LN_dmu mu sg psi).
Proof. exact LN_dmu_correct. Qed.
Theorem C05_LN_dsigma : forall mu sg psi, 0 < sg -> is_derive (fun t => LN_lp mu t psi) sg (LN_dsig mu sg psi).
Proof. exact LN_dsig_correct. Qed.
Theorem C05_TG_dpsi : forall mu sg psi, 0 < sg -> is_derive (fun t => TG_lp mu sg t) psi (TG_dpsi mu sg psi).
Proof. exact TG_dpsi_correct. Qed.
Theorem C05_TG_dmu : forall mu sg psi, 0 < sg -> Phi (- mu / sg) < 1 ->
  is_derive (fun t => TG_lp t sg psi) mu (TG_dmu mu sg psi).
Proof. exact TG_dmu_correct. Qed.
Theorem C05_TG_dsigma : forall mu sg psi, 0 < sg -> Phi (- mu / sg) < 1 ->
  is_derive (fun t => TG_lp mu t psi) sg (TG_dsig mu sg psi).
Proof. exact TG_dsig_correct. Qed.
Theorem C05_NC_deta : forall eta, is_derive NC_lp eta (NC_deta eta).
Proof. exact NC_deta_correct. Qed.

(* ---- supplied upstream sensitivities are propagated by the chain rule ----
   L is the rest of the log-pdf as a function of the individual parameter psi, u = L'(psi) *)
Theorem C05_upstream_centered_G : forall (L : R -> R) mu sg psi u, 0 < sg -> is_derive L psi u ->
  is_derive (fun t => L t + G_lp mu sg t) psi (up_centered (G_dpsi mu sg psi) u).
Proof. exact up_centered_G. Qed.
Theorem C05_upstream_centered_LN : forall (L : R -> R) mu sg psi u, 0 < sg -> 0 < psi -> is_derive L psi u ->
  is_derive (fun t => L t + LN_lp mu sg t) psi (up_centered (LN_dpsi mu sg psi) u).
Proof. exact up_centered_LN. Qed.
Theorem C05_upstream_Gnc_eta : forall (L : R -> R) mu sg eta u, is_derive L (Gnc_psi mu sg eta) u ->
  is_derive (fun e => L (Gnc_psi mu sg e) + NC_lp e) eta (Gnc_deta sg eta u).
Proof. exact Gnc_deta_correct. Qed.
Theorem C05_upstream_Gnc_mu : forall (L : R -> R) mu sg eta u, is_derive L (Gnc_psi mu sg eta) u ->
  is_derive (fun m => L (Gnc_psi m sg eta)) mu (Gnc_dmu u).
Proof. exact Gnc_dmu_correct. Qed.
Theorem C05_upstream_Gnc_sigma : forall (L : R -> R) mu sg eta u, is_derive L (Gnc_psi mu sg eta) u ->
  is_derive (fun s => L (Gnc_psi mu s eta)) sg (Gnc_dsig eta u).
Proof. exact Gnc_dsig_correct. Qed.
Theorem C05_upstream_LNnc_eta : forall (L : R -> R) mu sg eta u, is_derive L (LNnc_psi mu sg eta) u ->
  is_derive (fun e => L (LNnc_psi mu sg e) + NC_lp e) eta (LNnc_deta mu sg eta u).
Proof. exact LNnc_deta_correct. Qed.
Theorem C05_upstream_LNnc_mu : forall (L : R -> R) mu sg eta u, is_derive L (LNnc_psi mu sg eta) u ->
  is_derive (fun m => L (LNnc_psi m sg eta)) mu (LNnc_dmu mu sg eta u).
Proof. exact LNnc_dmu_correct. Qed.
Theorem C05_upstream_LNnc_sigma : forall (L : R -> R) mu sg eta u, is_derive L (LNnc_psi mu sg eta) u ->
  is_derive (fun s => L (LNnc_psi mu s eta)) sg (LNnc_dsig mu sg eta u).
Proof. exact LNnc_dsig_correct. Qed.

(* ---- sums over individuals: the flattened gradient w.r.t. a shared population parameter is the sum of the
   per-individual terms, for any number of individuals ---- *)
Theorem C05_G_population_dmu : forall (terms : list (R * R)) mu, (forall t, In t terms -> 0 < fst t) ->
  is_derive (fun m => Rsum (map (fun t => G_lp m (fst t) (snd t)) terms)) mu
            (Rsum (map (fun t => G_dmu mu (fst t) (snd t)) terms)).
Proof. exact G_pop_dmu. Qed.
Theorem C05_G_population_dsigma : forall (psis : list R) mu sg, 0 < sg ->
  is_derive (fun s => Rsum (map (fun p => G_lp mu s p) psis)) sg (Rsum (map (fun p => G_dsig mu sg p) psis)).
Proof. exact G_pop_dsig. Qed.
