(* C01 — the individual log-likelihood sums each observation's density exactly once.
   Statements only; proofs are `exact <lemma>` (Proofs/TimeGrid.v, Proofs/LogLik.v).
   Models: Model/TimeGrid.v (bookkeeping of chi.LogLikelihood), Model/LogLik.v (score), tied to /repo by
   harness/c01.py.  Times are integers (scaled dyadics); `pred o t` is the mechanistic prediction for
   output o at time t — ANY function, so the theorems hold for every mechanistic model. *)
From Coq Require Import Reals ZArith List Bool.
From Chi Require Import Base.RSum Base.Score Model.ErrorModels Model.TimeGrid Model.LogLik
     Proofs.TimeGrid Proofs.LogLik.
Import ListNotations.

(* (1) Whatever the grids — identical, disjoint, nested, interleaved, with repeated times, of length 1,
   for any number of outputs — the predictions handed to output o's error model are the predictions for
   output o at output o's own measurement times, in order. *)
Theorem C01_pairs : forall (V : Type) (d : V) (pred : nat -> Z -> V) (ts : list (list Z)) (o : nat),
  paired d pred ts o = map (pred o) (nth o ts []).
Proof. exact (@paired_is_spec). Qed.

(* (2) every measurement contributes exactly once: the scored (prediction, observation) pairs are the
   images of the (time, observation) pairs of that output *)
Theorem C01_each_measurement_once :
  forall (V : Type) (d : V) (pred : nat -> Z -> V) (ts : list (list Z)) (ys : list V) (o : nat),
  combine (paired d pred ts o) ys = map (fun ty => (pred o (fst ty), snd ty)) (combine (nth o ts []) ys).
Proof. exact (@pairs_each_once). Qed.

(* (3) the error-parameter slices are consecutive, have the reported sizes and cover the block *)
Theorem C01_slices_partition : forall (A : Type) (counts : list nat) (th : list A),
  length th = fold_right Nat.add O counts ->
  concat (slices counts th) = th /\ map (@length A) (slices counts th) = counts.
Proof. exact (@slices_partition). Qed.

(* (4) the score chi computes (union grid + searchsorted index) is the specification: the sum over outputs
   of the error model's log-likelihood of that output's observations given that output's predictions at
   its own times, with its own parameter slice *)
Theorem C01_total : forall pred n_mech ks ts obs th,
  ll pred n_mech ks ts obs th = ll_spec pred n_mech ks ts obs th.
Proof. exact ll_is_spec. Qed.
Theorem C01_pointwise : forall pred n_mech ks ts obs th,
  pointwise pred n_mech ks ts obs th = pointwise_spec pred n_mech ks ts obs th.
Proof. exact pointwise_is_spec. Qed.

(* (5) the pointwise values (output by output, in time order) add up to the total *)
Theorem C01_pointwise_sum : forall pred n_mech ks ts obs th,
  List.Forall call_ok (calls 0%R pred n_mech (map n_err ks) ts obs th) ->
  ssum (pointwise pred n_mech ks ts obs th) = ll pred n_mech ks ts obs th.
Proof. exact pointwise_sums_to_total. Qed.

(* (6) an object that was constructed without error can be evaluated: every error model receives as many
   predictions as observations, so the premise of (5) holds for every constructed object whose outputs
   have at least one measurement *)
Theorem C01_constructed_evaluates :
  forall pred n_mech counts n_out n_em ts obs (th : list R),
  constructs n_out n_em ts obs = true -> (forall g, In g ts -> g <> []) ->
  List.Forall call_ok (calls 0%R pred n_mech counts ts obs th).
Proof. exact constructed_calls_ok. Qed.

(* (7) n_observations adds up to the number of measurements *)
Theorem C01_n_observations : forall (A : Type) (obs : list (list A)),
  fold_right Nat.add O (n_obs obs) = length (concat obs).
Proof. exact (@n_obs_counts). Qed.

(* non-vacuity: a two-output likelihood with a repeated time and an extra time in the other output *)
Example C01_nonvacuous :
  constructs 2 2 [[1; 2; 2]; [1; 3]]%Z [[5; 6; 7]; [8; 9]]%Z = true /\
  paired 0%Z (fun o t => (100 * Z.of_nat o + t)%Z) [[1; 2; 2]; [1; 3]]%Z 0 = [1; 2; 2]%Z /\
  paired 0%Z (fun o t => (100 * Z.of_nat o + t)%Z) [[1; 2; 2]; [1; 3]]%Z 1 = [101; 103]%Z.
Proof. repeat split; vm_compute; reflexivity. Qed.
