(* C14 — the problem controller builds exactly the posterior the dataset describes.
   Statements only; proofs are `exact <lemma of Proofs/Problem.v>`.  All axiom-free.
   What the theorems cover is the routing of dataset rows to individuals, outputs, regimens and covariates
   (Model/Problem.v); what each LogLikelihood / HierarchicalLogLikelihood does with the routed data is C01 / C02. *)
From Coq Require Import List Bool String QArith.
From Chi Require Import Model.Problem Proofs.Problem.
Import ListNotations.

Theorem C14_measurements : forall d i o t v,
  In (t, v) (measurements d i o) <->
  exists r, In r d /\ r_id r = i /\ r_obs r = Some o /\ r_time r = Some t /\ r_value r = Some v.
Proof. exact measurements_spec. Qed.

Theorem C14_row_order_kept : forall d d' i o,
  measurements (d ++ d') i o = measurements d i o ++ measurements d' i o.
Proof. exact measurements_app. Qed.

Theorem C14_own_rows_only : forall d d' i,
  filter (has_id i) d = filter (has_id i) d' ->
  (forall o, measurements d i o = measurements d' i o) /\ regimen d i = regimen d' i /\
  (forall c, covariate_values d i c = covariate_values d' i c).
Proof. exact own_rows_only. Qed.

Theorem C14_unrelated_rows : forall d d' r i o,
  irrelevant_measurement r i o -> measurements (d ++ r :: d') i o = measurements (d ++ d') i o.
Proof. exact unrelated_row_measurements. Qed.
Theorem C14_unrelated_rows_regimen : forall d d' r i,
  (r_id r <> i \/ r_dose r = None \/ r_time r = None) -> regimen (d ++ r :: d') i = regimen (d ++ d') i.
Proof. exact unrelated_row_regimen. Qed.

Theorem C14_regimen : forall d i lv st du,
  In (lv, st, du) (regimen d i) <->
  exists r a, In r d /\ r_id r = i /\ r_dose r = Some a /\ r_time r = Some st /\
              du = (match r_dur r with Some x => x | None => default_duration end) /\ lv = a / du.
Proof. exact regimen_spec. Qed.
Theorem C14_event_delivers_amount : forall a du : Q, ~ du == 0 -> (a / du) * du == a.
Proof. exact event_delivers_amount. Qed.

Theorem C14_ids : forall d, NoDup (ids d) /\ (forall i, In i (ids d) <-> exists r, In r d /\ r_id r = i).
Proof. exact ids_spec. Qed.
Theorem C14_ids_first_appearance : forall d d', exists rest, ids (d ++ d') = ids d ++ rest.
Proof. exact ids_prefix. Qed.
Theorem C14_ids_column_only : forall d d', map r_id d = map r_id d' -> ids d = ids d'.
Proof. exact ids_column_only. Qed.

Theorem C14_rearranged : forall d d' obs cov,
  ids d = ids d' -> (forall i, filter (has_id i) d = filter (has_id i) d') ->
  routed d obs cov = routed d' obs cov.
Proof. exact routed_rearranged. Qed.

(* ---- row labels (the pandas index) carry no meaning ---- *)
(* chi selects rows with boolean masks (Model/Problem.v works on the rows, never on their labels); selecting by the
   LABELS of the matching rows is the same thing only when labels are unique *)
Theorem C14_label_selection_with_unique_labels : forall (p : row -> bool) (f : lframe),
  NoDup (map fst f) -> label_select p f = mask_select p f.
Proof. exact label_select_unique. Qed.
Theorem C14_label_selection_refuted : exists (p : row -> bool) (f : lframe), label_select p f <> mask_select p f.
Proof. exact label_select_refuted. Qed.
