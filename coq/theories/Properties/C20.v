(* C20 — figures faithfully render the supplied data and prediction bands.
   Statements only (proofs: Proofs/Plots.v, axiom-free).  Sample values are integers (scaled dyadics); a
   bulk probability is the fraction a/b. *)
From Coq Require Import ZArith List Bool String Permutation.
From Chi Require Import Model.Plots Proofs.Plots.
Import ListNotations.
Open Scope Z_scope.

(* (1) whenever both limits exist they are sample values at that time and enclose at least the fraction
   a/b of the samples — for EVERY multiset of samples, ties included *)
Theorem C20_band_mass : forall l a b L U, 0 < a -> a < b ->
  lower_limit l a b = Some L -> upper_limit l a b = Some U ->
  In L l /\ In U l /\ a * n_of l <= b * inside L U l.
Proof. exact band_mass. Qed.

(* (2) bands are nested for increasing probabilities a1/b1 <= a2/b2 *)
Theorem C20_bands_nested : forall l a1 b1 a2 b2 L1 U1 L2 U2,
  0 < b1 -> 0 < b2 -> a1 * b2 <= a2 * b1 ->
  lower_limit l a1 b1 = Some L1 -> upper_limit l a1 b1 = Some U1 ->
  lower_limit l a2 b2 = Some L2 -> upper_limit l a2 b2 = Some U2 ->
  L2 <= L1 /\ U1 <= U2.
Proof. exact bands_nested. Qed.

(* (3) the drawn polygon has one upper and one lower vertex per time point, over the times in frame order
   and back *)
Theorem C20_polygon : forall rows a b,
  let p := polygon rows a b in
  List.length (fst p) = (2 * List.length (times_of rows))%nat /\
  List.length (snd p) = (2 * List.length (times_of rows))%nat /\
  fst p = times_of rows ++ rev (times_of rows).
Proof. exact polygon_shape. Qed.

(* (4) one marker trace per individual with at least one row of the chosen observable, holding exactly
   that individual's (time, value) pairs; dose traces hold exactly its dose rows *)
Theorem C20_one_trace_per_individual : forall o rows,
  NoDup (map fst (biom_figure o rows)) /\
  forall i, In i (map fst (biom_figure o rows)) <-> exists r, In r rows /\ obs_is o r = true /\ rid r = i.
Proof. exact figure_ids. Qed.
Theorem C20_trace_exact : forall o rows i tv,
  In tv (biom_trace o rows i) <->
  exists r, In r rows /\ obs_is o r = true /\ rid r = i /\ tv = (rtime r, rval r).
Proof. exact biom_trace_exact. Qed.
Theorem C20_dose_trace_exact : forall rows i x,
  In x (dose_trace rows i) <->
  exists r, In r rows /\ has_dose r = true /\ rid r = i /\ x = (rtime r, rdose r, rdur r).
Proof. exact dose_trace_exact. Qed.

(* (5) the polygon's y-vertices are exactly the upper limits of each unique time followed by the lower limits
   in reverse; the unique times are the times of the samples table, each once; the samples of a time are
   exactly the values of its rows *)
Theorem C20_polygon_values : forall rows a b,
  snd (polygon rows a b) =
    map (fun t => upper_limit (samples_at rows t) a b) (times_of rows) ++
    rev (map (fun t => lower_limit (samples_at rows t) a b) (times_of rows)).
Proof. exact polygon_values. Qed.
Theorem C20_times_exact : forall rows,
  NoDup (times_of rows) /\ forall t, In t (times_of rows) <-> exists v, In (t, v) rows.
Proof. exact times_exact. Qed.
Theorem C20_samples_exact : forall rows t v, In v (samples_at rows t) <-> In (t, v) rows.
Proof. exact samples_exact. Qed.

(* (6) the band of a time does not depend on the order of the rows of the samples table (nor, for one time,
   on the order of its samples) *)
Theorem C20_limits_order_free : forall l l' a b, Permutation l l' ->
  lower_limit l a b = lower_limit l' a b /\ upper_limit l a b = upper_limit l' a b.
Proof. exact limits_perm. Qed.
Theorem C20_band_row_order_free : forall rows rows' a b t, Permutation rows rows' ->
  lower_limit (samples_at rows t) a b = lower_limit (samples_at rows' t) a b /\
  upper_limit (samples_at rows t) a b = upper_limit (samples_at rows' t) a b.
Proof. exact band_row_order. Qed.

Example C20_order_nonvacuous :
  Permutation [(0, 5); (0, 2); (1, 7); (0, 9)] [(0, 2); (0, 5); (1, 7); (0, 9)] /\
  lower_limit (samples_at [(0, 5); (0, 2); (1, 7); (0, 9)] 0) 1 3 = Some 2 /\
  upper_limit (samples_at [(0, 2); (0, 5); (1, 7); (0, 9)] 0) 1 3 = Some 5.
Proof. split; [apply perm_swap|split; vm_compute; reflexivity]. Qed.

Example C20_nonvacuous :
  lower_limit [1; 2; 2; 3; 5; 8; 8; 9] 1 2 = Some 1 /\ upper_limit [1; 2; 2; 3; 5; 8; 8; 9] 1 2 = Some 8 /\
  inside 1 8 [1; 2; 2; 3; 5; 8; 8; 9] = 7.
Proof. repeat split; vm_compute; reflexivity. Qed.
