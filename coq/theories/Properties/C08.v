(* C08 — fixing parameters is exact substitution, reversible and order-independent.
   Statements only; proofs are `exact <lemma of Proofs/Fixing.v>`.  All axiom-free.
   V is the type of parameter values; `junk` the content of an uninitialised / released buffer slot. *)
From Coq Require Import List Bool String Arith.
From Chi Require Import Model.Fixing Proofs.Fixing.
Import ListNotations.

(* (1) exact substitution: evaluating the reduced object at `free` evaluates the wrapped object at a
   vector of the original length that carries the fixed values at the fixed positions and the free
   values, in their original order, at the free positions; a full-length gradient restricted to the free
   positions is what the reduced object returns *)
Theorem C08_substitution : forall (V : Type) (s : state V) (free l : list V),
  expand s free = Some l ->
  List.length l = List.length s /\ restrict s l = free /\
  (forall i n v, nth_error s i = Some (n, Some v) -> nth_error l i = Some v).
Proof. exact expand_spec. Qed.

(* the reduced object accepts exactly the vectors whose length is the number of free parameters *)
Theorem C08_accepts : forall (V : Type) (s : state V) (free : list V),
  List.length free = List.length (free_names s) <-> exists l, expand s free = Some l.
Proof. exact expand_defined. Qed.

(* (2) names and counts: the reported names are the free names in the original order; free + fixed =
   original count *)
Theorem C08_names_counts : forall (V : Type) (s : state V),
  List.length (free_names s) + n_fixed s = List.length s.
Proof. exact n_free_fixed. Qed.
Theorem C08_names_order : forall (V : Type) (s : state V),
  free_names s = map fst (filter is_free s) /\ (forall n, In n (free_names s) -> In n (map fst s)).
Proof. exact free_names_order. Qed.

(* (3) the state after ANY sequence of fix / re-fix / release calls is the net name -> value map, so two
   histories with the same net effect are indistinguishable *)
Theorem C08_state_is_net : forall (V : Type) (names : list string) (h : list (dict V)),
  fold_left fix_params h (init names) = map (fun n => (n, eff V h n)) names.
Proof. exact state_is_net. Qed.
Theorem C08_history_independent : forall (V : Type) (names : list string) (h1 h2 : list (dict V)),
  (forall n, In n names -> eff V h1 n = eff V h2 n) ->
  fold_left fix_params h1 (init names) = fold_left fix_params h2 (init names).
Proof. exact history_independent. Qed.

(* (4) releasing restores the previous behaviour *)
Theorem C08_fix_then_release : forall (V : Type) (s : state V) (d : dict V),
  (forall n v, lookup d n = Some v -> forall c, In (n, c) s -> c = None) ->
  fix_params (fix_params s d) (map (fun kv => (fst kv, None)) d) = s.
Proof. exact fix_then_release. Qed.
Theorem C08_nothing_fixed_is_identity : forall (V : Type) (names : list string) (free : list V),
  List.length free = List.length names -> expand (init names) free = Some free.
Proof. exact expand_nothing_fixed. Qed.

(* (5) chi's implementation — a boolean mask and a value buffer that collapse to None when nothing is
   fixed, with garbage in unfixed slots — represents exactly that specification after every history:
   same names, same counts, same substituted vector *)
Theorem C08_buffers_refine_spec : forall (V : Type) (junk : V) (names : list string) (h : list (dict V)),
  let s := fold_left (cfix junk) h (cinit names) in
  wf V s /\ abs s = fold_left fix_params h (init names) /\ cnames s = names.
Proof. exact chistory. Qed.
Theorem C08_buffers_observe : forall (V : Type) (s : cstate V) (free : list V),
  wf V s ->
  cfree_names s = free_names (abs s) /\ cn_fixed s = n_fixed (abs s) /\
  (List.length free = List.length (cfree_names s) -> cexpand s free = expand (abs s) free).
Proof. exact cobserve_refines. Qed.

Example C08_nonvacuous :
  let h := [[("a", Some 1); ("b", Some 2)]; [("a", None)]; [("c", Some 3); ("b", Some 5)]]%string in
  let s := fold_left (cfix 0) h (cinit ["a"; "b"; "c"; "d"]%string) in
  cfree_names s = ["a"; "d"]%string /\ cn_fixed s = 2 /\ cexpand s [7; 8] = Some [7; 5; 3; 8].
Proof. repeat split. Qed.

(* ---- renaming the free parameters of a reduced population model ---- *)
(* the code (wrapped names read without dimension names, free entries overwritten, handed to the wrapped model's
   setter) renames exactly the free parameters, in order *)
Theorem C08_rename_free_only : forall mask ps new,
  List.length mask = List.length ps -> List.length new = n_free mask ->
  rename mask ps new = rename_spec mask ps new.
Proof. exact rename_is_spec. Qed.
(* a fixed parameter keeps its published name, so that it can be released or re-fixed by that name *)
Theorem C08_rename_keeps_fixed_names : forall mask ps new i p,
  List.length mask = List.length ps -> List.length new = n_free mask ->
  nth_error mask i = Some true -> nth_error ps i = Some p ->
  nth_error (rename mask ps new) i = Some p.
Proof. exact fixed_names_kept. Qed.
(* reading the published names (code before d7c2aa2) does not *)
Theorem C08_rename_old_code_refuted : exists mask ps new i p,
  List.length mask = List.length ps /\ List.length new = n_free mask /\
  nth_error mask i = Some true /\ nth_error ps i = Some p /\
  nth_error (rename_old mask ps new) i <> Some p.
Proof. exact rename_old_refuted. Qed.

(* ---- restricted sensitivities: what a reduced mechanistic model asks its wrapped model for ---- *)
(* after ANY history of fix / release / switching sensitivities on and off, the sensitivities requested are those
   with respect to the free parameters, in their original order (or none, when switched off) *)
Theorem C08_sensitivities_follow_free : forall (V : Type) names (ops : list (rop V)), rok (rrun rstep names ops).
Proof. exact @sens_follow_free. Qed.
(* refreshing the request only when the NUMBER of fixed parameters changed, or not at all once nothing is fixed,
   leaves stale requests behind *)
Theorem C08_refresh_on_count_refuted : exists names (ops : list (rop nat)), ~ rok (rrun rstep_count names ops).
Proof. exact sens_refresh_on_count_refuted. Qed.
Theorem C08_early_return_refuted : exists names (ops : list (rop nat)), ~ rok (rrun rstep_early names ops).
Proof. exact sens_early_return_refuted. Qed.
