(* C19 — evaluations are pure: no hidden state, no input mutation (partial, see DESIGN).
   Statements only; proofs are `exact <lemma of Proofs/Purity.v>`.  All axiom-free.
   The theorems cover the three pieces of state chi's evaluation paths write to; that nothing else is written, that
   inputs are not modified and that forked workers agree is established by the correspondence checks only. *)
From Coq Require Import List Bool String Arith.
From Chi Require Import Model.Fixing Model.Mechanistic Model.Purity Proofs.Purity.
Import ListNotations.

(* (1) the value buffer of Reduced* wrappers: after any sequence of evaluations, the next evaluation hands the wrapped
   object the same vector, and names and counts are unchanged *)
Theorem C19_buffers : forall (V : Type) (s : cstate V) (history : list (list V)) (f : list V),
  cexpand (after_evals s history) f = cexpand s f /\
  cfree_names (after_evals s history) = cfree_names s /\ cn_fixed (after_evals s history) = cn_fixed s.
Proof. exact evals_unobservable. Qed.

(* (2) the sensitivity switch: every entry point runs with the setting it needs, whatever ran before *)
Theorem C19_sensitivity_switch : forall (flag : bool) (history : list eval_op) (o : eval_op),
  switch (flags_after flag history) o = switch flag o.
Proof. exact switch_after_history. Qed.

(* (3) the solver object: after the calls of simulate(), preceded by ANY earlier calls, every published parameter is
   bound to this call's entry and this call's outputs are logged at this call's times *)
Theorem C19_solver_history : forall (V : Type) (d : V) (plus1 : V -> V) (m : sbml) (outs : list string)
    (th times : list V) (prev : list (call V)) i,
  NoDup (decl_states m ++ decl_consts m) -> List.length th = n_parameters m -> i < n_parameters m ->
  assigned V m (prev ++ simulate_calls V d plus1 m outs th times) (nth i (parameter_names m) EmptyString)
  = Some (nth i th d) /\
  run_of V (prev ++ simulate_calls V d plus1 m outs th times) = Some (plus1 (last times d), outs, times).
Proof. exact simulate_forgets_history. Qed.

(* (4) whole histories: the vectors a reduced object hands to the object it wraps along ANY sequence of evaluations
   are those a fresh copy of the initial object would hand over one by one; the sensitivity setting used by each
   evaluation of a history is a function of that evaluation's entry point alone *)
Theorem C19_transcript_pure : forall (V : Type) (s : cstate V) (history : list (list V)),
  transcript s history = map (cexpand s) history.
Proof. exact (@transcript_pure). Qed.
Theorem C19_settings_pure : forall flag history,
  settings flag history = map (fun o => match o with ValueWithSensitivities => true | _ => false end) history.
Proof. exact settings_pure. Qed.
Example C19_settings_nonvacuous :
  settings true [Value; ValueWithSensitivities; PointwiseValues; ValueWithSensitivities] = [false; true; false; true].
Proof. reflexivity. Qed.
