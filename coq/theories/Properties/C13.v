(* C13 — filter posterior = prior + population + noise + filter terms; exact gradient.
   Statements only (proofs: Proofs/FilterPosterior.v).  The population part and the individual-parameter
   transforms are those of C02/C05, the filter terms those of C12; harness/c13.py assembles the specification
   sum and gradient that chi's values are certified against. *)
From Coq Require Import Reals List Arith.
From Coquelicot Require Import Coquelicot.
From Chi Require Import Base.RSum Model.PopModels Model.FilterPosterior Proofs.FilterPosterior.
Import ListNotations.

(* (1) the four blocks partition the vector, and the published IDs have its length *)
Theorem C13_blocks_partition : forall n_pop n_obs fs n_s n_hdim n_times,
  n_parameters n_pop n_obs fs n_s n_hdim n_times
  = (n_top n_pop n_obs fs + n_s * n_hdim + n_s * n_obs * n_times)%nat /\
  length (fp_ids n_pop n_obs fs n_s n_hdim n_times) = n_parameters n_pop n_obs fs n_s n_hdim n_times.
Proof. exact blocks_partition. Qed.
(* the noise realisation of (simulated individual, observable, time) has a unique position in the last block *)
Theorem C13_epsilon_position : forall endb n_obs n_times s r j, (r < n_obs)%nat -> (j < n_times)%nat ->
  eps_of_pos endb n_obs n_times (eps_pos endb n_obs n_times s r j) = (s, r, j).
Proof. exact eps_roundtrip. Qed.
Theorem C13_epsilon_range : forall endb n_s n_obs n_times s r j,
  (s < n_s)%nat -> (r < n_obs)%nat -> (j < n_times)%nat ->
  (endb <= eps_pos endb n_obs n_times s r j < endb + n_s * n_obs * n_times)%nat.
Proof. exact eps_pos_range. Qed.

Open Scope R_scope.
(* (2) the noise score is the standard-normal log-density of the realisations up to a parameter-independent
   constant *)
Theorem C13_noise_is_standard_normal : forall n_const eps,
  noise_lp n_const eps = Rsum (map NC_lp eps) + (INR (length eps) - INR n_const) * ln (2 * PI) / 2.
Proof. exact noise_is_standard_normal. Qed.

(* (3) sensitivities w.r.t. a noise realisation, a noise scale and (through the mechanistic output) the
   individual parameters, for additive and log-scale noise; F = the filter's score as a function of that
   simulated measurement, g its derivative *)
Theorem C13_depsilon_additive : forall (F : R -> R) m sg eps g, is_derive F (y_add m sg eps) g ->
  is_derive (fun e => F (y_add m sg e) + - e^2 / 2) eps (deps_add sg eps g).
Proof. exact deps_add_correct. Qed.
Theorem C13_depsilon_log : forall (F : R -> R) m sg eps g, is_derive F (y_log m sg eps) g ->
  is_derive (fun e => F (y_log m sg e) + - e^2 / 2) eps (deps_log m sg eps g).
Proof. exact deps_log_correct. Qed.
Theorem C13_dsigma_additive : forall (F : R -> R) m sg eps g, is_derive F (y_add m sg eps) g ->
  is_derive (fun s => F (y_add m s eps)) sg (dsig_add eps g).
Proof. exact dsig_add_correct. Qed.
Theorem C13_dsigma_log : forall (F : R -> R) m sg eps g, is_derive F (y_log m sg eps) g ->
  is_derive (fun s => F (y_log m s eps)) sg (dsig_log m sg eps g).
Proof. exact dsig_log_correct. Qed.
Theorem C13_doutput_additive : forall (F : R -> R) m sg eps g, is_derive F (y_add m sg eps) g ->
  is_derive (fun t => F (y_add t sg eps)) m (dm_add g).
Proof. exact dm_add_correct. Qed.
Theorem C13_doutput_log : forall (F : R -> R) m sg eps g, is_derive F (y_log m sg eps) g ->
  is_derive (fun t => F (y_log t sg eps)) m (dm_log sg eps g).
Proof. exact dm_log_correct. Qed.
