(* C06 — samplers draw from the distribution their log-likelihood scores (partial, see DESIGN).
   Statements only; proofs are `exact <lemma of Proofs/Samplers.v>`.
   A sampler is a transform T of a primitive variate.  `normal_pushforward T S supp pdf` says: T is an increasing
   bijection of the real line onto the support with inverse S, and pdf integrates over every interval [a, b] of the
   support to the standard-normal mass of [S a, S b]; so for z standard normal, P(a <= T z <= b) is the integral of
   pdf — here pdf is always exp of the model's own log-likelihood (C04 / C05). *)
From Coq Require Import Reals List.
From Coquelicot Require Import Coquelicot.
From Chi Require Import Base.Normal Base.Phi Model.ErrorModels Model.PopModels Model.Samplers
     Proofs.ErrorModels Proofs.Samplers.
Import ListNotations.
Open Scope R_scope.

(* error models *)
Theorem C06_gaussian_error : forall s m, 0 < s ->
  normal_pushforward (G_sample s m) (fun y => (y - m) / s) (fun _ => True) (fun y => exp (G_pw s m y)).
Proof. exact G_sampler. Qed.
Theorem C06_multiplicative_error : forall sr m, 0 < sr * m ->
  normal_pushforward (MG_sample sr m) (fun y => (y - m) / (sr * m)) (fun _ => True) (fun y => exp (MG_pw sr m y)).
Proof. exact MG_sampler. Qed.
Theorem C06_lognormal_error : forall s m, 0 < s -> 0 < m ->
  normal_pushforward (LN_sample s m) (LN_g s m) (fun y => 0 < y) (fun y => exp (LN_pw s m y)).
Proof. exact LN_sampler. Qed.
(* constant + multiplicative: the one-variate transform the documentation describes has the scored law ... *)
Theorem C06_cmg_documented : forall sb sr m, 0 < sb + sr * m ->
  normal_pushforward (CMG_sample_doc sb sr m) (fun y => (y - m) / (sb + sr * m)) (fun _ => True)
                     (fun y => exp (CMG_pw sb sr m y)).
Proof. exact CMG_doc_sampler. Qed.
(* ... but chi's sampler adds two independent variates: its variance sb^2 + (m sr)^2 equals the variance
   (sb + sr m)^2 of the scored density only if sb sr m = 0.  REFUTED for the code as it is (known finding). *)
Theorem C06_cmg_code_is_two_variates : forall sb sr m z1 z2,
  CMG_sample_code sb sr m z1 z2 = m + (sb * z1 + (m * sr) * z2).
Proof. exact CMG_code_is_linear. Qed.
Theorem C06_cmg_code_refuted : forall sb sr m, sb * sr * m <> 0 -> lin_var [sb; m * sr] <> (sb + sr * m)^2.
Proof. exact CMG_code_variance_refuted. Qed.

(* population models *)
Theorem C06_gaussian_population : forall mu sg, 0 < sg ->
  normal_pushforward (Gpop_sample mu sg) (fun y => (y - mu) / sg) (fun _ => True) (fun y => exp (G_lp mu sg y)).
Proof. exact Gpop_sampler. Qed.
Theorem C06_lognormal_population : forall mu sg, 0 < sg ->
  normal_pushforward (LNpop_sample mu sg) (fun y => (ln y - mu) / sg) (fun y => 0 < y)
                     (fun y => exp (LN_lp mu sg y)).
Proof. exact LNpop_sampler. Qed.
(* non-centred models: eta is standard normal, and the model's own transform to individual parameters turns the
   draw into the centred draw *)
Theorem C06_noncentred : normal_pushforward NC_sample (fun y => y) (fun _ => True) (fun y => exp (NC_lp y)).
Proof. exact NC_sampler. Qed.
Theorem C06_noncentred_gaussian_psi : forall mu sg z, Gnc_psi mu sg (NC_sample z) = Gpop_sample mu sg z.
Proof. exact Gnc_individual_parameters. Qed.
Theorem C06_noncentred_lognormal_psi : forall mu sg z, LNnc_psi mu sg (NC_sample z) = LNpop_sample mu sg z.
Proof. exact LNnc_individual_parameters. Qed.
(* truncated Gaussian: the sample solves TG_cdf y = u for u uniform; TG_cdf starts at 0 in y = 0 and the scored
   density integrates over [a, b] to TG_cdf b - TG_cdf a *)
Theorem C06_truncated_cdf_zero : forall mu sg, TG_cdf mu sg 0 = 0.
Proof. exact TG_cdf_zero. Qed.
Theorem C06_truncated_population : forall mu sg a b, 0 < sg -> Phi (- mu / sg) < 1 ->
  is_RInt (fun y => exp (TG_lp mu sg y)) a b (TG_cdf mu sg b - TG_cdf mu sg a).
Proof. exact TG_interval_mass. Qed.

(* moments reported by get_mean_and_std *)
Theorem C06_lognormal_raw_moment : forall k mu sg, 0 < sg ->
  is_lim (fun t => RInt (fun y => exp (k * ln y) * exp (LN_lp mu sg y)) (exp (mu - sg * t)) (exp (mu + sg * t)))
         p_infty (exp (k * mu + k^2 * sg^2 / 2)).
Proof. exact LN_raw_moment. Qed.
Theorem C06_lognormal_mean : forall mu sg, 0 < sg ->
  is_lim (fun t => RInt (fun y => exp (1 * ln y) * exp (LN_lp mu sg y)) (exp (mu - sg * t)) (exp (mu + sg * t)))
         p_infty (LN_mean mu sg).
Proof. exact LN_mean_is_first_moment. Qed.
Theorem C06_lognormal_std : forall mu sg,
  (LN_std mu sg)^2 = exp (2 * mu + 2^2 * sg^2 / 2) - (LN_mean mu sg)^2.
Proof. exact LN_std_from_moments. Qed.
Theorem C06_truncated_mean : forall mu sg, 0 < sg -> Phi (- mu / sg) < 1 ->
  is_lim (fun b => RInt (fun y => y * exp (TG_lp mu sg y)) 0 b) p_infty (TG_mean mu sg).
Proof. exact TG_mean_is_first_moment. Qed.
Theorem C06_truncated_second_moment : forall mu sg, 0 < sg -> Phi (- mu / sg) < 1 ->
  is_lim (fun b => RInt (fun y => y^2 * exp (TG_lp mu sg y)) 0 b) p_infty
         (mu^2 + sg^2 + sg * mu * (phi (mu / sg) / (1 - Phi (- mu / sg)))).
Proof. exact TG_second_moment. Qed.
Theorem C06_truncated_std : forall mu sg, 0 < sg -> Phi (- mu / sg) < 1 ->
  let F := phi (mu / sg) / (1 - Phi (- mu / sg)) in
  0 <= 1 - mu / sg * F - F^2 ->
  (TG_std mu sg)^2 = (mu^2 + sg^2 + sg * mu * F) - (TG_mean mu sg)^2.
Proof. exact TG_std_from_moments. Qed.
