(* The standard normal density phi, its interval masses, and total mass one
   (from the proved Gaussian integral, Base/GaussInt.v). *)
From Coq Require Import Reals Lra ssreflect.
From Coquelicot Require Import Coquelicot.
From Chi Require Import Base.GaussInt.
Open Scope R_scope.

Definition phi (u : R) := / sqrt (2*PI) * exp (- u^2 / 2).

Lemma exp_half_ln x : 0 < x -> exp (ln x / 2) = sqrt x.
Proof.
  intros Hx. symmetry. apply sqrt_lem_1; try lra. left; apply exp_pos.
  rewrite -exp_plus. replace (ln x / 2 + ln x / 2) with (ln x) by field. now apply exp_ln.
Qed.
Lemma sqrt2pi_pos : 0 < sqrt (2*PI).
Proof. apply sqrt_lt_R0. generalize PI_RGT_0. lra. Qed.
Lemma sqrt2_pos : 0 < sqrt 2.
Proof. apply sqrt_lt_R0. lra. Qed.

Lemma phi_pos u : 0 < phi u.
Proof. unfold phi. apply Rmult_lt_0_compat; [apply Rinv_0_lt_compat, sqrt2pi_pos | apply exp_pos]. Qed.

Lemma cont_phi x : continuous phi x.
Proof. unfold phi. apply: ex_derive_continuous. auto_derive. auto. Qed.

Lemma ex_RInt_phi a b : ex_RInt phi a b.
Proof. apply: ex_RInt_continuous => x _. apply cont_phi. Qed.

(* mass of [0, b] as a Gaussian integral *)
Lemma is_RInt_phi_0 b : is_RInt phi 0 b (/ sqrt PI * I (b / sqrt 2)).
Proof.
  have S2 := sqrt2_pos.
  have SP : 0 < sqrt PI by apply sqrt_lt_R0, PI_RGT_0.
  have H2 : sqrt 2 * sqrt 2 = 2 by apply sqrt_sqrt; lra.
  apply is_RInt_ext with (fun u => scal (/ sqrt PI) (scal (/ sqrt 2) (gs (/ sqrt 2 * u + 0)))).
  - move=> x _. rewrite /scal /= /mult /= /phi /gs.
    have -> : - (/ sqrt 2 * x + 0) ^ 2 = - x^2 / 2.
    { replace (- (/ sqrt 2 * x + 0) ^ 2) with (- x^2 * / (sqrt 2 * sqrt 2)) by (field; lra).
      rewrite H2. field. }
    have -> : sqrt (2 * PI) = sqrt 2 * sqrt PI.
    { apply sqrt_mult; generalize PI_RGT_0; lra. }
    field. split; lra.
  - apply: is_RInt_scal. apply: is_RInt_comp_lin.
    replace (/ sqrt 2 * 0 + 0) with 0 by ring.
    replace (/ sqrt 2 * b + 0) with (b / sqrt 2) by (field; lra).
    apply: RInt_correct. apply ex_RInt_gs.
Qed.

Lemma phi_mass_0 b : RInt phi 0 b = / sqrt PI * I (b / sqrt 2).
Proof. apply is_RInt_unique, is_RInt_phi_0. Qed.

Lemma lim_div_sqrt2 : is_lim (fun b => b / sqrt 2) p_infty p_infty.
Proof.
  have S2 := sqrt2_pos.
  replace p_infty with (Rbar_mult p_infty (/ sqrt 2)) at 2.
  2:{ simpl. case: Rle_dec => H; last by (exfalso; apply H; left; apply Rinv_0_lt_compat).
      case: Rle_lt_or_eq_dec => // H'. exfalso. have := Rinv_0_lt_compat _ S2. lra. }
  apply is_lim_scal_r. apply is_lim_id.
Qed.

Theorem phi_half_mass_right : is_lim (fun b => RInt phi 0 b) p_infty (1/2).
Proof.
  apply is_lim_ext with (fun b => / sqrt PI * I (b / sqrt 2)).
  - intros b. by rewrite phi_mass_0.
  - have SP : 0 < sqrt PI by apply sqrt_lt_R0, PI_RGT_0.
    replace (Finite (1/2)) with (Rbar_mult (/ sqrt PI) (sqrt PI / 2)).
    2:{ simpl. f_equal. field. lra. }
    apply is_lim_scal_l.
    apply (is_lim_comp I (fun b => b / sqrt 2) p_infty (sqrt PI / 2) p_infty).
    + apply gauss_half.
    + apply lim_div_sqrt2.
    + exists 0 => y _. discriminate.
Qed.

Lemma phi_even u : phi (- u) = phi u.
Proof. unfold phi. f_equal. f_equal. field. Qed.

Lemma phi_mass_sym b : RInt phi (- b) 0 = RInt phi 0 b.
Proof.
  rewrite -opp_RInt_swap; last by apply ex_RInt_phi.
  have H1 : is_RInt (fun y => opp (phi y)) 0 b (RInt phi 0 (- b)).
  { apply is_RInt_ext with (fun y => scal (-1) (phi (-1 * y + 0))).
    - move=> x _. rewrite /scal /= /mult /= /opp /=.
      replace (-1 * x + 0) with (- x) by ring. rewrite phi_even. ring.
    - apply: is_RInt_comp_lin.
      replace (-1 * 0 + 0) with 0 by ring. replace (-1 * b + 0) with (- b) by ring.
      apply: RInt_correct. apply ex_RInt_phi. }
  have H2 : is_RInt (fun y => opp (phi y)) 0 b (opp (RInt phi 0 b)).
  { apply: is_RInt_opp. apply: RInt_correct. apply ex_RInt_phi. }
  have E1 := is_RInt_unique _ _ _ _ H1. have E2 := is_RInt_unique _ _ _ _ H2.
  rewrite E1 in E2. rewrite E2. by rewrite opp_opp.
Qed.

Lemma phi_mass_centered b : RInt phi (- b) b = 2 * RInt phi 0 b.
Proof.
  rewrite -(RInt_Chasles phi (- b) 0 b); try apply ex_RInt_phi.
  rewrite phi_mass_sym /plus /=. ring.
Qed.

(* total mass one, as the limit of the mass of symmetric intervals *)
Theorem phi_total_mass : is_lim (fun b => RInt phi (- b) b) p_infty 1.
Proof.
  apply is_lim_ext with (fun b => 2 * RInt phi 0 b).
  - move=> b. by rewrite phi_mass_centered.
  - replace (Finite 1) with (Rbar_mult 2 (1/2)) by (simpl; f_equal; field).
    apply is_lim_scal_l. apply phi_half_mass_right.
Qed.

Theorem phi_half_mass_left : is_lim (fun b => RInt phi (- b) 0) p_infty (1/2).
Proof.
  apply is_lim_ext with (fun b => RInt phi 0 b).
  - move=> b. by rewrite phi_mass_sym.
  - apply phi_half_mass_right.
Qed.

(* positive scalings of b also tend to infinity *)
Lemma lim_scal_pinfty c : 0 < c -> is_lim (fun b => b * c) p_infty p_infty.
Proof.
  move=> Hc.
  replace p_infty with (Rbar_mult p_infty c) at 2.
  2:{ simpl. case: Rle_dec => H; last by (exfalso; apply H; left).
      case: Rle_lt_or_eq_dec => // H'. exfalso. lra. }
  apply is_lim_scal_r. apply is_lim_id.
Qed.

(* mass of intervals centred anywhere, at any positive scale, tends to one *)
Theorem phi_scaled_total_mass s : 0 < s ->
  is_lim (fun b => RInt phi (- b / s) (b / s)) p_infty 1.
Proof.
  move=> Hs.
  apply is_lim_ext with (fun b => (fun t => RInt phi (- t) t) (b * / s)).
  - move=> b /=. f_equal; field; lra.
  - apply (is_lim_comp (fun t => RInt phi (- t) t) (fun b => b * / s) p_infty 1 p_infty).
    + apply phi_total_mass.
    + apply lim_scal_pinfty. by apply Rinv_0_lt_compat.
    + exists 0 => y _. discriminate.
Qed.
