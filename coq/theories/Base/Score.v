(* Scores as chi returns them: a finite real or minus infinity (the guard value). *)
From Coq Require Import Reals.
Inductive score : Type := Fin (r : R) | NegInf.
Definition splus (a b : score) : score :=
  match a, b with Fin x, Fin y => Fin (x + y)%R | _, _ => NegInf end.
Definition sfinite (a : score) : bool := match a with Fin _ => true | NegInf => false end.
