(* The standard normal distribution function Phi (for the truncated Gaussian model). *)
From Coq Require Import Reals Lra ssreflect.
From Coquelicot Require Import Coquelicot.
From Chi Require Import Base.GaussInt Base.Normal.
Open Scope R_scope.

Definition Phi (x : R) : R := 1 / 2 + RInt phi 0 x.

Lemma is_derive_Phi x : is_derive Phi x (phi x).
Proof.
  rewrite /Phi. evar_last.
  - apply: is_derive_plus; first by apply: is_derive_const.
    apply: (is_derive_RInt phi _ 0).
    + apply filter_forall => y. apply: RInt_correct. apply ex_RInt_phi.
    + apply cont_phi.
  - rewrite /plus /zero /=. ring.
Qed.
Lemma Derive_Phi x : Derive Phi x = phi x.
Proof. apply is_derive_unique, is_derive_Phi. Qed.
Lemma ex_derive_Phi x : ex_derive Phi x.
Proof. eexists; apply is_derive_Phi. Qed.

(* symmetry: 1 - Phi(-x) = Phi x *)
Lemma Phi_sym x : 1 - Phi (- x) = Phi x.
Proof.
  rewrite /Phi. have := phi_mass_sym x. rewrite -(opp_RInt_swap phi 0 (- x)); last by apply ex_RInt_phi.
  rewrite /opp /=. lra.
Qed.
