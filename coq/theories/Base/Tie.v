(* Vocabulary of the certified numeric correspondence (DESIGN §4.2).  The harness states, for every
   generated case, that the model's value is within `tol` of the double chi returned (converted exactly
   to a fraction), and proves it with CoqInterval.  Guards (Rle_dec on literals) are decided by lra. *)
From Coq Require Import Reals Lra List.
From Interval Require Import Tactic.
From Chi Require Import Base.Score.
Import ListNotations.
Open Scope R_scope.

Definition close (x v tol : R) : Prop := Rabs (x - v) <= tol.
Definition sclose (a : score) (v tol : R) : Prop :=
  match a with Fin r => close r v tol | NegInf => False end.
Definition is_neginf (a : score) : Prop := match a with Fin _ => False | NegInf => True end.
Fixpoint lclose (xs vs : list R) (tol : R) : Prop :=
  match xs, vs with
  | [], [] => True
  | x :: xs, v :: vs => close x v (tol * (1 + Rabs v)) /\ lclose xs vs tol
  | _, _ => False
  end.
(* pointwise scores against a list of expected entries: Some v = finite value, None = -inf *)
Fixpoint slclose (xs : list score) (vs : list (option R)) (tol : R) : Prop :=
  match xs, vs with
  | [], [] => True
  | Fin x :: xs, Some v :: vs => close x v (tol * (1 + Rabs v)) /\ slclose xs vs tol
  | NegInf :: xs, None :: vs => slclose xs vs tol
  | _, _ => False
  end.

(* innermost guards first, so that every decision is about literals and lra prunes the dead branch *)
Ltac no_guard t :=
  lazymatch t with
  | context [Rle_dec _ _] => fail
  | context [Rlt_dec _ _] => fail
  | _ => idtac
  end.
(* a guard about literals is decided by lra; one about computed values (exp ...) by CoqInterval *)
Ltac absurd_le a b := first [ exfalso; lra | exfalso; assert (b < a) by (interval with (i_prec 60)); lra ].
Ltac absurd_nle a b := first [ exfalso; lra | exfalso; assert (a <= b) by (interval with (i_prec 60)); lra ].
Ltac absurd_lt a b := first [ exfalso; lra | exfalso; assert (b <= a) by (interval with (i_prec 60)); lra ].
Ltac absurd_nlt a b := first [ exfalso; lra | exfalso; assert (a < b) by (interval with (i_prec 60)); lra ].
Ltac decide_guards :=
  repeat match goal with
         | |- context [Rle_dec ?a ?b] =>
           no_guard a; no_guard b;
           destruct (Rle_dec a b); [try absurd_le a b | try absurd_nle a b]
         | |- context [Rlt_dec ?a ?b] =>
           no_guard a; no_guard b;
           destruct (Rlt_dec a b); [try absurd_lt a b | try absurd_nlt a b]
         end.

Ltac tie_numeric :=
  cbv beta iota delta [close sclose is_neginf lclose slclose fst snd];
  repeat match goal with |- _ /\ _ => split end;
  try exact I;
  interval with (i_prec 80).

(* integrals (Phi of the truncated Gaussian model): enclose every distinct RInt by CoqInterval's integral_intro,
   abstract it, and let `interval` use the enclosure *)
From Coquelicot Require Import Coquelicot.
Ltac rints :=
  repeat match goal with
         | |- context [RInt ?f ?a ?b] =>
           let H := fresh "HR" in
           integral_intro (RInt f a b) with (i_prec 80, i_relwidth 45, i_fuel 3000) as H;
           let P := fresh "P" in set (P := RInt f a b) in *; clearbody P
         end.
