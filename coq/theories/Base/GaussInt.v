(* Attempt: the Gaussian integral, via F(t) = (int_0^t e^{-x^2})^2 + int_0^1 e^{-t^2(1+x^2)}/(1+x^2) = PI/4 *)
From Coq Require Import Reals Lra ssreflect.
From Coquelicot Require Import Coquelicot.
Open Scope R_scope.

Definition gs (x : R) := exp (- x^2).
Definition I (t : R) := RInt gs 0 t.
Definition fG (u x : R) := exp (- u^2 * (1 + x^2)) / (1 + x^2).
Definition G (t : R) := RInt (fun x => fG t x) 0 1.
Definition dfG (u x : R) := - 2 * u * exp (- u^2 * (1 + x^2)).

Lemma cont_gs t : continuous gs t.
Proof. apply: ex_derive_continuous. unfold gs. auto_derive. auto. Qed.

Lemma is_derive_I t : is_derive I t (gs t).
Proof.
  apply: (is_derive_RInt gs _ 0).
  - apply filter_forall => y. apply: RInt_correct. apply: ex_RInt_continuous => z _. apply cont_gs.
  - apply cont_gs.
Qed.

Lemma one_plus_sq_pos x : 0 < 1 + x^2.
Proof. nra. Qed.

Lemma is_derive_fG u x : is_derive (fun u => fG u x) u (dfG u x).
Proof.
  unfold fG, dfG. auto_derive.
  - try easy; try (apply Rgt_not_eq, one_plus_sq_pos).
  - replace (- (u * (u * 1)) * (1 + x * (x * 1))) with (- u ^ 2 * (1 + x ^ 2)) by ring.
    field. apply Rgt_not_eq; nra.
Qed.

Lemma cont2_dfG u x : continuity_2d_pt dfG u x.
Proof.
  unfold dfG.
  apply continuity_2d_pt_mult.
  - apply continuity_2d_pt_mult. apply continuity_2d_pt_const. apply continuity_2d_pt_id1.
  - apply (continuity_1d_2d_pt_comp exp (fun u x => - u^2 * (1 + x^2))).
    + apply derivable_continuous_pt, derivable_pt_exp.
    + apply continuity_2d_pt_mult.
      * apply continuity_2d_pt_opp. simpl.
        apply continuity_2d_pt_mult. apply continuity_2d_pt_id1.
        apply continuity_2d_pt_mult. apply continuity_2d_pt_id1. apply continuity_2d_pt_const.
      * apply continuity_2d_pt_plus. apply continuity_2d_pt_const. simpl.
        apply continuity_2d_pt_mult. apply continuity_2d_pt_id2.
        apply continuity_2d_pt_mult. apply continuity_2d_pt_id2. apply continuity_2d_pt_const.
Qed.

Lemma cont_fG u x : continuous (fun x => fG u x) x.
Proof. apply: ex_derive_continuous. unfold fG. auto_derive. repeat split; try easy; apply Rgt_not_eq; nra. Qed.

Lemma is_derive_G t : is_derive G t (RInt (fun x => dfG t x) 0 1).
Proof.
  unfold G.
  evar_last.
  - apply (is_derive_RInt_param fG 0 1 t).
    + apply filter_forall => u x _. eexists; apply is_derive_fG.
    + intros x _. apply continuity_2d_pt_ext with dfG.
      * intros u v. symmetry. apply is_derive_unique, is_derive_fG.
      * apply cont2_dfG.
    + apply filter_forall => u. apply: ex_RInt_continuous => z _. apply cont_fG.
  - apply RInt_ext => x _. apply is_derive_unique, is_derive_fG.
Qed.

(* Step C: the parametric derivative is -2 gs(t) I(t) *)
Lemma ex_RInt_gs a b : ex_RInt gs a b.
Proof. apply: ex_RInt_continuous => z _. apply cont_gs. Qed.

Lemma dG_eq t : RInt (fun x => dfG t x) 0 1 = - 2 * gs t * I t.
Proof.
  rewrite (RInt_ext _ (fun x => scal (- 2 * gs t) (scal t (gs (t * x + 0))))); last first.
  - intros x _. unfold dfG, gs, scal; simpl; unfold mult; simpl.
    replace (- (t * (t * 1)) * (1 + x * (x * 1))) with (- (t * (t * 1)) + - ((t * x + 0) * ((t * x + 0) * 1))) by ring.
    rewrite exp_plus. ring.
  - rewrite RInt_scal; last by (apply: ex_RInt_comp_lin; apply ex_RInt_gs).
    rewrite RInt_comp_lin; last by apply ex_RInt_gs.
    unfold I, scal; simpl; unfold mult; simpl.
    replace (t * 0 + 0) with 0 by ring. replace (t * 1 + 0) with t by ring. reflexivity.
Qed.

(* Step D: H = I^2 + G is constant *)
Definition H (t : R) := (I t)^2 + G t.

Lemma is_derive_H t : is_derive H t 0.
Proof.
  unfold H. evar_last.
  - apply: is_derive_plus.
    + apply: is_derive_pow. apply is_derive_I.
    + apply is_derive_G.
  - rewrite dG_eq. rewrite /plus /= /scal /= /mult /= /one /=. ring.
Qed.

Lemma H_const t : H t = H 0.
Proof.
  assert (E : is_RInt (fun _ : R => 0) 0 t (minus (H t) (H 0))).
  { apply: (is_RInt_derive H (fun _ => 0)).
    - intros x _. apply is_derive_H.
    - intros x _. apply continuous_const. }
  assert (E0 : is_RInt (fun _ : R => 0) 0 t (scal (t - 0) 0)) by apply: is_RInt_const.
  pose proof (is_RInt_unique _ _ _ _ E) as U1. pose proof (is_RInt_unique _ _ _ _ E0) as U2.
  rewrite U1 in U2. rewrite /minus /plus /opp /= /scal /= /mult /= in U2. lra.
Qed.

Lemma I0 : I 0 = 0.
Proof. unfold I. by rewrite RInt_point. Qed.

Lemma G0 : G 0 = PI / 4.
Proof.
  unfold G.
  rewrite (RInt_ext _ (fun x => / (1 + x²))); last first.
  - intros x _. unfold fG. replace (- 0 ^ 2 * (1 + x ^ 2)) with 0 by ring. rewrite exp_0. unfold Rsqr. change (@eq R (1 / (1 + x ^ 2)) (/ (1 + x * x))). field. apply Rgt_not_eq. nra.
  - apply is_RInt_unique.
    replace (PI / 4) with (minus (atan 1) (atan 0)) by (rewrite atan_1 atan_0 /minus /plus /opp /=; lra).
    apply: is_RInt_derive.
    + intros x _. apply is_derive_atan.
    + intros x _. apply: ex_derive_continuous. unfold Rsqr. auto_derive. apply Rgt_not_eq; nra.
Qed.

Lemma H_val t : (I t)^2 + G t = PI / 4.
Proof. change (H t = PI/4). rewrite H_const /H I0 G0. ring. Qed.

(* Step E: 0 <= G t <= exp (- t^2) *)
Lemma ex_RInt_fG t : ex_RInt (fun x => fG t x) 0 1.
Proof. apply: ex_RInt_continuous => z _. apply cont_fG. Qed.

Lemma G_ge_0 t : 0 <= G t.
Proof.
  unfold G. apply RInt_ge_0; [lra | apply ex_RInt_fG |].
  intros x _. unfold fG. apply Rlt_le, Rdiv_lt_0_compat; [apply exp_pos | nra].
Qed.

Lemma G_le t : G t <= exp (- t^2).
Proof.
  unfold G.
  replace (exp (- t^2)) with (RInt (fun _ : R => exp (- t^2)) 0 1).
  2:{ rewrite RInt_const /scal /= /mult /=. ring. }
  apply RInt_le; [lra | apply ex_RInt_fG | apply ex_RInt_const |].
  intros x _. unfold fG.
  assert (Hx : 1 <= 1 + x^2) by nra.
  apply Rle_trans with (exp (- t^2 * (1 + x^2)) / 1).
  - unfold Rdiv. apply Rmult_le_compat_l; [left; apply exp_pos|]. apply Rinv_le_contravar; lra.
  - unfold Rdiv. rewrite Rinv_1 Rmult_1_r.
    assert (Ht : 0 <= t^2) by apply pow2_ge_0. assert (Hx2 : 0 <= x^2) by apply pow2_ge_0.
    assert (Hle : - t ^ 2 * (1 + x ^ 2) <= - t ^ 2) by nra.
    destruct Hle as [Hlt|Heq]; [left; now apply exp_increasing | right; now rewrite Heq].
Qed.

(* Step F: the limit *)
Lemma I_ge_0 t : 0 <= t -> 0 <= I t.
Proof.
  intros Ht. unfold I. apply RInt_ge_0; [exact Ht | apply ex_RInt_gs |].
  intros x _. left. apply exp_pos.
Qed.

Lemma lim_exp_msq : is_lim (fun t => exp (- t^2)) p_infty 0.
Proof.
  apply (is_lim_comp exp (fun t => - t^2) p_infty 0 m_infty).
  - apply is_lim_exp_m.
  - replace m_infty with (Rbar_opp p_infty) by reflexivity. apply is_lim_opp.
    apply (is_lim_le_p_loc (fun t => t)).
    + exists 1 => y Hy. nra.
    + apply is_lim_id.
  - exists 0 => y Hy. discriminate.
Qed.

Lemma lim_G : is_lim G p_infty 0.
Proof.
  apply (is_lim_le_le_loc (fun _ => 0) (fun t => exp (- t^2))).
  - exists 0 => t _. split; [apply G_ge_0 | apply G_le].
  - apply is_lim_const.
  - apply lim_exp_msq.
Qed.

Theorem gauss_half : is_lim I p_infty (sqrt PI / 2).
Proof.
  apply is_lim_ext_loc with (fun t => sqrt (PI / 4 - G t)).
  - exists 0 => t Ht. rewrite -(H_val t).
    replace ((I t)^2 + G t - G t) with ((I t)²) by (unfold Rsqr; ring).
    apply sqrt_Rsqr, I_ge_0. lra.
  - replace (sqrt PI / 2) with (sqrt (PI / 4)).
    2:{ replace (PI / 4) with (PI / 2²) by (unfold Rsqr; field).
        rewrite sqrt_div_alt; [ | unfold Rsqr; lra]. rewrite sqrt_Rsqr; lra. }
    assert (L : is_lim (fun t => PI / 4 - G t) p_infty (PI / 4)).
    { replace (Finite (PI / 4)) with (Finite (PI / 4 - 0)) by (f_equal; ring).
      apply: is_lim_minus'. apply is_lim_const. apply lim_G. }
    unfold is_lim in *.
    eapply filterlim_comp. exact L.
    apply continuity_pt_filterlim. apply continuity_pt_sqrt. generalize PI_RGT_0; lra.
Qed.

