(* Sums of reals over lists, and the lifting of derivatives to sums of any length. *)
From Coq Require Import Reals Lra List Arith.
From Coquelicot Require Import Coquelicot.
Import ListNotations.
Open Scope R_scope.

Fixpoint Rsum (l : list R) : R := match l with [] => 0 | x :: t => x + Rsum t end.

Lemma Rsum_app l1 l2 : Rsum (l1 ++ l2) = Rsum l1 + Rsum l2.
Proof. induction l1 as [|a l IH]; simpl; [lra | rewrite IH; lra]. Qed.

Lemma Rsum_map_plus {A} (f g : A -> R) l :
  Rsum (map (fun a => f a + g a) l) = Rsum (map f l) + Rsum (map g l).
Proof. induction l as [|a l IH]; simpl; [lra | rewrite IH; lra]. Qed.

Lemma Rsum_map_scal {A} (c : R) (f : A -> R) l :
  Rsum (map (fun a => c * f a) l) = c * Rsum (map f l).
Proof. induction l as [|a l IH]; simpl; [lra | rewrite IH; lra]. Qed.

Lemma Rsum_map_const {A} (c : R) (l : list A) :
  Rsum (map (fun _ => c) l) = INR (length l) * c.
Proof.
  induction l as [|a l IH]; [simpl; lra|].
  change (length (a :: l)) with (S (length l)). rewrite S_INR. simpl. rewrite IH. lra.
Qed.

Lemma Rsum_map_affine {A} (f : A -> R) (c d : R) (l : list A) :
  Rsum (map (fun a => f a * c + d) l) = Rsum (map f l) * c + INR (length l) * d.
Proof.
  induction l as [|a l IH]; [simpl; lra|].
  change (length (a :: l)) with (S (length l)). rewrite S_INR. simpl. rewrite IH. lra.
Qed.

Lemma combine_length_eq {A B} (l : list A) (l' : list B) :
  length l = length l' -> length (combine l l') = length l.
Proof. intros H. rewrite combine_length, <- H. apply Nat.min_id. Qed.

Lemma Rsum_map_ext {A} (f g : A -> R) l :
  (forall a, In a l -> f a = g a) -> Rsum (map f l) = Rsum (map g l).
Proof.
  induction l as [|a l IH]; intros H; simpl; [reflexivity|].
  rewrite H; [|now left]. rewrite IH; [reflexivity|]. intros b Hb. apply H. now right.
Qed.

Lemma Rsum_concat (ls : list (list R)) : Rsum (concat ls) = Rsum (map Rsum ls).
Proof. induction ls as [|l ls IH]; simpl; [reflexivity | rewrite Rsum_app, IH; reflexivity]. Qed.

Lemma map_combine_map {A B C D} (f : A -> B) (g : A -> C) (h : B * C -> D) (l : list A) :
  map h (combine (map f l) (map g l)) = map (fun a => h (f a, g a)) l.
Proof. induction l as [|a l IH]; simpl; [reflexivity | now rewrite IH]. Qed.

(* derivative of a sum of any length *)
Lemma is_derive_Rsum {A} (l : list A) (f : A -> R -> R) (d : A -> R) x :
  (forall a, In a l -> is_derive (f a) x (d a)) ->
  is_derive (fun t => Rsum (map (fun a => f a t) l)) x (Rsum (map d l)).
Proof.
  induction l as [|a l IH]; intros H; simpl.
  - apply @is_derive_const.
  - apply @is_derive_plus.
    + apply H. now left.
    + apply IH. intros b Hb. apply H. now right.
Qed.
