From Coq Require Import Reals Lra List.
From Coquelicot Require Import Coquelicot.
Open Scope R_scope.

(* Gaussian error model pointwise log-density *)
Definition gauss_ll (m y s : R) : R :=
  - (ln (2 * PI) / 2 + ln s) - (m - y)^2 / s^2 / 2.

(* derivative wrt sigma *)
Lemma d_sigma m y s : 0 < s ->
  is_derive (fun s => gauss_ll m y s) s ((y - m)^2 / s^3 - 1 / s).
Proof.
  intros Hs. unfold gauss_ll.
  auto_derive.
  - repeat split; try lra. apply Rgt_not_eq. nra.
  - field. lra.
Qed.

(* chain rule through model output *)
Lemma d_psi (f : R -> R) x df y s : 0 < s ->
  is_derive f x df ->
  is_derive (fun x => gauss_ll (f x) y s) x ((y - f x) * df / s^2).
Proof.
  intros Hs Hf. unfold gauss_ll.
  auto_derive.
  - split. exists df; exact Hf. auto.
  - rewrite (is_derive_unique _ _ _ Hf). field. lra.
Qed.

(* const+mult model *)
Definition cm_ll (m y sb sr : R) : R :=
  - ln (2*PI)/2 - ln (sb + sr * m) - (m - y)^2 / (sb + sr*m)^2 / 2.
Lemma cm_d_psi (f : R -> R) x df y sb sr : 0 < sb + sr * f x ->
  is_derive f x df ->
  is_derive (fun x => cm_ll (f x) y sb sr) x
   ((y - f x) / (sb + sr * f x)^2 * df - sr * (df / (sb + sr * f x)) + sr * ((y - f x)^2 / (sb + sr * f x)^3 * df)).
Proof.
  intros Hs Hf. unfold cm_ll.
  auto_derive.
  - repeat split; try (exists df; exact Hf); auto. apply Rgt_not_eq. nra.
  - rewrite (is_derive_unique _ _ _ Hf). field. lra.
Qed.
Print Assumptions cm_d_psi.
