(* Prototype: C08 fixing parameters as a state machine; history independence and substitution. *)
From Coq Require Import List ZArith Lia Bool String.
Import ListNotations.

Section Fixing.
Variable V : Type.                       (* parameter values *)
Definition name := string.
Definition dict := list (name * option V).     (* a Python dict: None = release *)

Fixpoint lookup (d : dict) (n : name) : option (option V) :=
  match d with
  | [] => None
  | (k, v) :: t => match lookup t n with Some r => Some r | None => if String.eqb k n then Some v else None end
  end.   (* later entries win, as in dict(...) built from pairs *)

(* state: for each original parameter, its name and Some value if fixed *)
Definition state := list (name * option V).
Definition init (names : list name) : state := map (fun n => (n, None)) names.

Definition fix_params (s : state) (d : dict) : state :=
  map (fun '(n, cur) => match lookup d n with Some v => (n, v) | None => (n, cur) end) s.

(* observations *)
Definition free_names (s : state) : list name := map fst (filter (fun p => match snd p with None => true | Some _ => false end) s).
Definition n_free (s : state) := List.length (free_names s).
Definition n_fixed (s : state) := List.length (filter (fun p => match snd p with None => false | Some _ => true end) s).

(* substitution: expand a vector of free values to the full vector (fuel-free, structural) *)
Fixpoint expand (s : state) (free : list V) : option (list V) :=
  match s with
  | [] => match free with [] => Some [] | _ => None end
  | (_, Some v) :: t => option_map (cons v) (expand t free)
  | (_, None) :: t => match free with [] => None | x :: xs => option_map (cons x) (expand t xs) end
  end.

(* net effect of a history on one name: the last dict that mentions it decides *)
Fixpoint net (h : list dict) (n : name) : option V :=
  match h with
  | [] => None
  | d :: t => match net_aux t n with Some r => r | None => match lookup d n with Some v => v | None => None end end
  end
with net_aux (h : list dict) (n : name) : option (option V) :=
  match h with
  | [] => None
  | d :: t => match net_aux t n with Some r => Some r | None => lookup d n end
  end.

Lemma fix_fold_names : forall h s, map fst (fold_left fix_params h s) = map fst s.
Proof.
  induction h as [|d h IH]; intros s; cbn [fold_left]; [reflexivity|]. rewrite IH. unfold fix_params. rewrite map_map.
  apply map_ext. intros [n c]. destruct (lookup d n); reflexivity.
Qed.

Lemma fold_fix_entry : forall h s,
  fold_left fix_params h s = map (fun '(n, cur) => (n, match net_aux h n with Some r => r | None => cur end)) s.
Proof.
  induction h as [|d h IH]; intros s; cbn [fold_left net_aux].
  - rewrite <- (map_id s) at 1. apply map_ext. intros [n c]. reflexivity.
  - rewrite IH. unfold fix_params. rewrite map_map. apply map_ext. intros [n c].
    destruct (lookup d n) as [v|] eqn:E; destruct (net_aux h n); reflexivity.
Qed.

Theorem C08_history_independent (names : list name) (h1 h2 : list dict) :
  (forall n, net_aux h1 n = net_aux h2 n \/ (net_aux h1 n = None /\ net_aux h2 n = Some None) \/ (net_aux h1 n = Some None /\ net_aux h2 n = None)) ->
  fold_left fix_params h1 (init names) = fold_left fix_params h2 (init names).
Proof.
  intros H. rewrite !fold_fix_entry. unfold init. rewrite !map_map. apply map_ext. intros n.
  destruct (H n) as [E|[[E1 E2]|[E1 E2]]]; [now rewrite E | now rewrite E1, E2 | now rewrite E1, E2].
Qed.

Theorem C08_release (names : list name) (h : list dict) n :
  fold_left fix_params (h ++ [[(n, None)]]) (init names)
  = map (fun '(k, c) => if String.eqb n k then (k, None) else (k, c)) (fold_left fix_params h (init names)).
Proof.
  rewrite fold_left_app. cbn [fold_left]. unfold fix_params. apply map_ext. intros [k c]. cbn [lookup].
  destruct (String.eqb n k); reflexivity.
Qed.

Lemma expand_length s free l : expand s free = Some l -> List.length l = List.length s /\ List.length free = n_free s.
Proof.
  revert free l. induction s as [|[n [v|]] s IH]; intros free l H; cbn in *.
  - destruct free; [injection H as <-; auto | discriminate].
  - destruct (expand s free) eqn:E; [|discriminate]. injection H as <-. destruct (IH _ _ E). cbn. unfold n_free, free_names in *. cbn. auto.
  - destruct free as [|x xs]; [discriminate|]. destruct (expand s xs) eqn:E; [|discriminate]. injection H as <-.
    destruct (IH _ _ E). unfold n_free, free_names in *. cbn. auto.
Qed.
End Fixing.
Print Assumptions C08_history_independent.
