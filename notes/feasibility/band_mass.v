(* Prototype: rank-based prediction band encloses the requested mass (chi.plots _compute_bulk_probs).
   Values are integers (dyadic rationals scaled by the harness); the bulk probability is a/b with 0 < a < b. *)
From Coq Require Import List ZArith Lia Bool.
Import ListNotations.
Open Scope Z_scope.

Fixpoint cnt (p : Z -> bool) (l : list Z) : Z := match l with [] => 0 | y :: t => (if p y then 1 else 0) + cnt p t end.
Definition less (l : list Z) (x : Z) := cnt (fun y => y <? x) l.
Definition eqc (l : list Z) (x : Z) := cnt (fun y => y =? x) l.
Definition leq (l : list Z) (x : Z) := cnt (fun y => y <=? x) l.
Definition n_of (l : list Z) := cnt (fun _ => true) l.

(* pandas rank(pct=True) with method='average':  pct x = (less x + (eq x + 1)/2) / n ;
   we use  2 n pct x = 2 less x + eq x + 1  to stay in Z *)
Definition rank2 (l : list Z) (x : Z) := 2 * less l x + eqc l x + 1.

(* lower percentile 1/2 - p/2 and upper 1/2 + p/2 with p = a/b :
     pct x <= lower  <->  b * rank2 x <= n (b - a)
     pct x >= upper  <->  b * rank2 x >= n (b + a)          *)
Definition below (l : list Z) (a b x : Z) := b * rank2 l x <=? n_of l * (b - a).
Definition above (l : list Z) (a b x : Z) := b * rank2 l x >=? n_of l * (b + a).

Definition inside (L U : Z) (l : list Z) := cnt (fun y => (L <=? y) && (y <=? U)) l.

Lemma cnt_nonneg p l : 0 <= cnt p l. Proof. induction l as [|y l IH]; cbn [cnt]; [lia|]. destruct (p y); lia. Qed.

Lemma cnt_split l x : leq l x = less l x + eqc l x.
Proof.
  unfold leq, less, eqc. induction l as [|y l IH]; cbn [cnt]; [lia|].
  destruct (Z.leb_spec y x), (Z.ltb_spec y x), (Z.eqb_spec y x); lia.
Qed.

Lemma inside_eq L U l : L <= U -> inside L U l = leq l U - less l L.
Proof.
  intros H. unfold inside, leq, less. induction l as [|y l IH]; cbn [cnt]; [lia|].
  destruct (Z.leb_spec L y), (Z.leb_spec y U), (Z.ltb_spec y L); cbn [andb]; lia.
Qed.

Lemma less_mono l x y : x <= y -> less l x <= less l y.
Proof.
  intros H. unfold less. induction l as [|z l IH]; cbn [cnt]; [lia|].
  destruct (Z.ltb_spec z x), (Z.ltb_spec z y); lia.
Qed.

Lemma less_eq_le l x y : x < y -> less l x + eqc l x <= less l y.
Proof.
  intros H. unfold less, eqc. induction l as [|z l IH]; cbn [cnt]; [lia|].
  destruct (Z.ltb_spec z x), (Z.eqb_spec z x), (Z.ltb_spec z y); lia.
Qed.

Lemma eqc_pos l x : In x l -> 1 <= eqc l x.
Proof.
  unfold eqc. induction l as [|z l IH]; cbn [cnt In]; [tauto|]. intros [->|H].
  - rewrite Z.eqb_refl. pose proof (cnt_nonneg (fun y => y =? x) l). lia.
  - specialize (IH H). destruct (z =? x); lia.
Qed.

Lemma less_eq_le_n l x : less l x + eqc l x <= n_of l.
Proof.
  unfold less, eqc, n_of. induction l as [|z l IH]; cbn [cnt]; [lia|].
  destruct (Z.ltb_spec z x), (Z.eqb_spec z x); lia.
Qed.

(* Any lower limit L (a sample with pct <= lower) and upper limit U (a sample with pct >= upper)
   enclose at least the fraction a/b of the samples; in particular chi's choice
   L = max {x | below x}, U = min {x | above x}. *)
Theorem band_mass l a b L U :
  0 < a -> a < b -> In L l -> In U l ->
  below l a b L = true -> above l a b U = true ->
  a * n_of l <= b * inside L U l.
Proof.
  intros Ha Hab HL HU HbL HaU. unfold below, above, rank2 in *.
  apply Z.leb_le in HbL. apply Z.geb_le in HaU.
  pose proof (eqc_pos l L HL) as EL. pose proof (eqc_pos l U HU) as EU.
  pose proof (cnt_nonneg (fun y => y <? L) l) as NL. fold (less l L) in NL.
  assert (Hn : 0 <= n_of l) by apply cnt_nonneg.
  pose proof (less_eq_le_n l L) as TL. pose proof (less_eq_le_n l U) as TU.
  pose proof (cnt_nonneg (fun y => y <? U) l) as NU. fold (less l U) in NU.
  (* L < U, otherwise the two rank conditions contradict each other *)
  assert (HLU : L < U).
  { destruct (Z_lt_le_dec L U) as [|Hge]; [assumption|exfalso].
    pose proof (less_mono l U L Hge) as M.
    destruct (Z.eq_dec U L) as [->|Hne]; [nia|].
    pose proof (less_eq_le l U L ltac:(lia)) as M2. nia. }
  rewrite inside_eq by lia. rewrite cnt_split.
  nia.
Qed.
Print Assumptions band_mass.
