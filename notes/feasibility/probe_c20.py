import numpy as np, pandas as pd, chi, warnings
from chi import plots
warnings.simplefilter('ignore')
rng=np.random.default_rng(6)
res={}
def rec(w,k=None): res.setdefault(w,[]).append(k)
for trial in range(300):
    n_t=int(rng.integers(1,4)); n_s=int(rng.integers(1,40))
    times=np.sort(rng.choice(np.arange(10)/2, size=n_t, replace=False))
    rows=[]
    for t in times:
        vals=rng.integers(0,8,size=n_s)/4 if trial%2 else rng.normal(size=n_s)   # ties in even trials
        for i,v in enumerate(vals): rows.append({'ID':i+1,'Time':t,'Observable':'A','Value':v})
    df=pd.DataFrame(rows); before=df.copy()
    probs=sorted(set(float(x) for x in rng.choice([0.1,0.3,0.5,0.7,0.9,0.25,0.75], size=int(rng.integers(1,4)), replace=False)))
    for cls in (plots.PDPredictivePlot, plots.PKPredictivePlot):
        f=cls()
        d=df.copy()
        if cls is plots.PKPredictivePlot: d['Dose']=np.nan; d['Duration']=np.nan
        try: f.add_prediction(d, bulk_probs=probs)
        except Exception as e: rec('ERR '+cls.__name__+' '+type(e).__name__+str(e)[:60],(n_t,n_s,probs)); continue
        traces=[tr for tr in f._fig.data if tr.fill=='toself']
        if len(traces)!=len(probs): rec('number of band traces',(len(traces),probs)); continue
        bands={}
        for tr in traces:
            p=float(tr.text.split(' ')[0]); x=np.array(tr.x,float); y=np.array(tr.y,float)
            k=len(x)//2; up=y[:k]; lo=y[k:][::-1]; bands[p]=(x[:k],lo,up)
            if not np.array_equal(x[:k],times) or not np.array_equal(x[k:],times[::-1]): rec('polygon times',(x.tolist(),times.tolist()))
            for j,t in enumerate(times):
                v=df[df.Time==t].Value.to_numpy()
                if np.isnan(lo[j]) or np.isnan(up[j]): continue
                frac=np.mean((v>=lo[j])&(v<=up[j]))
                if frac<p-1e-12: rec('band encloses less than requested',(p,frac,n_s,trial%2))
                if lo[j] not in v or up[j] not in v: rec('limit is not a sample value')
        ps=sorted(bands)
        for a,b in zip(ps,ps[1:]):
            la,ua=bands[a][1],bands[a][2]; lb,ub=bands[b][1],bands[b][2]
            ok=np.all((lb<=la)|np.isnan(lb)|np.isnan(la)) and np.all((ub>=ua)|np.isnan(ub)|np.isnan(ua))
            if not ok: rec('bands not nested',(a,b))
    if not df.equals(before): rec('data frame mutated')
for w,k in sorted(res.items(), key=lambda kv:-len(kv[1])): print(len(k), w, '| e.g.', k[:3])
print('done')
