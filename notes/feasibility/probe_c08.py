import numpy as np, chi, warnings, itertools, copy
warnings.simplefilter('ignore')
import toy
rng=np.random.default_rng(4)
res={}
def rec(k,w): res.setdefault(w,[]).append(k)
def net_of(history):
    d={}
    for h in history:
        for k,v in h.items():
            if v is None: d.pop(k,None)
            else: d[k]=v
    return d
# --- error models ---
for cls in [chi.GaussianErrorModel, chi.ConstantAndMultiplicativeGaussianErrorModel, chi.LogNormalErrorModel, chi.MultiplicativeGaussianErrorModel]:
    base=cls(); names=base.get_parameter_names()
    for trial in range(40):
        hist=[]
        for _ in range(rng.integers(1,4)):
            ks=[n for n in names if rng.uniform()<0.6]
            hist.append({k:(None if rng.uniform()<0.3 else float(rng.choice([0.5,1.0,1.5]))) for k in ks})
        r=chi.ReducedErrorModel(cls())
        for h in hist: r.fix_parameters(h)
        net=net_of(hist)
        free=[n for n in names if n not in net]
        if r.get_parameter_names()!=free or r.n_parameters()!=len(free) or r.n_fixed_parameters()!=len(net): rec((cls.__name__,hist),'error model names/counts'); continue
        x=rng.uniform(0.5,1.5,size=len(free)); full=np.array([net.get(n, None) for n in names],dtype=object)
        it=iter(x); full=np.array([net[n] if n in net else next(it) for n in names])
        mo=rng.uniform(1,2,size=4); ob=rng.uniform(1,2,size=4); S=rng.normal(size=(4,2))
        try:
            a=r.compute_log_likelihood(x,mo,ob); b=base.compute_log_likelihood(full,mo,ob)
            a2=r.compute_pointwise_ll(x,mo,ob); b2=base.compute_pointwise_ll(full,mo,ob)
            a3=r.compute_sensitivities(x,mo,S,ob); b3=base.compute_sensitivities(full,mo,S,ob)
            mask=np.array([True,True]+[n not in net for n in names])
            a4=r.sample(x,mo,n_samples=3,seed=7); b4=base.sample(full,mo,n_samples=3,seed=7)
            if a!=b or not np.array_equal(a2,b2) or a3[0]!=b3[0] or not np.array_equal(a3[1],b3[1][mask]) or not np.array_equal(a4,b4): rec((cls.__name__,hist),'error model values')
        except Exception as e: rec((cls.__name__,hist),'error model ERR '+type(e).__name__+str(e)[:40])
# --- likelihood level, incl. release and order independence ---
m=toy.Toy(2)
def mk(): return chi.LogLikelihood(m,[chi.GaussianErrorModel(),chi.ConstantAndMultiplicativeGaussianErrorModel()],[[1.,2.,3.],[1.,2.]],[[0.,1.,2.],[1.,3.]])
names=mk().get_parameter_names(); print(names)
for trial in range(150):
    hist=[]
    for _ in range(rng.integers(1,4)):
        ks=[n for n in names if rng.uniform()<0.4]
        hist.append({k:(None if rng.uniform()<0.3 else float(rng.choice([0.5,1.0,1.5]))) for k in ks})
    ll=mk()
    try:
        for h in hist: ll.fix_parameters(h)
    except Exception as e: rec(hist,'likelihood fix ERR '+type(e).__name__+str(e)[:50]); continue
    net=net_of(hist); free=[n for n in names if n not in net]
    if ll.get_parameter_names()!=free or ll.n_parameters()!=len(free): rec(hist,'likelihood names/counts: %s vs %s'%(ll.get_parameter_names(),free)); continue
    if not free: continue
    x=rng.uniform(0.5,1.5,size=len(free)); it=iter(x); full=np.array([net[n] if n in net else next(it) for n in names])
    ref=mk()
    try:
        a=ll(x); b=ref(full); a1=ll.evaluateS1(x); b1=ref.evaluateS1(full); mask=np.array([n not in net for n in names])
        a2=ll.compute_pointwise_ll(x); b2=ref.compute_pointwise_ll(full)
        if a!=b or a1[0]!=b1[0] or not np.allclose(a1[1],b1[1][mask],rtol=1e-12,atol=0) or not np.array_equal(a2,b2): rec(hist,'likelihood values')
    except Exception as e: rec(hist,'likelihood eval ERR '+type(e).__name__+str(e)[:50])
for w,k in sorted(res.items(), key=lambda kv:-len(kv[1])): print(len(k), w, '| e.g.', k[:2])
print('done')
