import simsub; simsub.install()
import numpy as np, chi, warnings, itertools, myokit
warnings.simplefilter('ignore')
from chi.library import ModelLibrary
L=ModelLibrary()
res={}
def rec(w,k=None): res.setdefault(w,[]).append(k)
m=L.one_compartment_pk_model(); m.set_administration('central')
pm=chi.PredictiveModel(m, chi.GaussianErrorModel())
n=0
for dose,start,dur,period,num in itertools.product([1.0,3.0],[0.0,0.5,2.0],[0.25,0.5],[None,0.5,1.0,2.0],[None,1,3]):
    if period is not None and dur>period: continue
    try: pm.set_dosing_regimen(dose,start,dur,period,num)
    except Exception as e: rec('set ERR '+type(e).__name__+str(e)[:40],(dose,start,dur,period,num)); continue
    reg=pm._mechanistic_model.dosing_regimen()
    for final in [0.25,0.5,1.0,1.75,2.0,2.5,4.0,7.3]:
        n+=1
        tab=pm.get_dosing_regimen(final)
        got=[] if tab is None else sorted(zip(tab['Time'].astype(float),tab['Duration'].astype(float),tab['Dose'].astype(float)))
        # expected from the definition: pulses t_k = start + k*period (k< num, or all k if num None/0, single if period None) with t_k <= final
        if period is None: ks=[0]
        else:
            kmax=int(np.floor((final-start)/period))+1 if final>=start else 0
            ks=range(kmax if (num in (None,0)) else min(kmax,num))
        exp=[(start+k*period if period else start, dur, dose) for k in ks if (start+(k*period if period else 0))<=final]
        if [tuple(np.round(x,9)) for x in got]!=[tuple(np.round(x,9)) for x in exp]: rec('regimen table != scheduled pulses',((dose,start,dur,period,num),final,got,exp))
        # what the simulation applies: integrate pace from PacingSystem
        ps=myokit.PacingSystem(reg); t=0.0; cum=0.0
        while t<final:
            ps.advance(t); nxt=min(final, ps.next_time()); cum+=ps.pace()*(nxt-t); t=nxt
        expcum=sum(dose*min(1.0,max(0.0,(final-tk)/dur)) for tk,_,_ in [(start+k*(period or 0),0,0) for k in (range(1) if period is None else range(int(np.floor((final-start)/period))+2 if final>=start else 0)) if (num in (None,0) or period is None or k<num)])
        if abs(cum-expcum)>1e-9: rec('cumulative input',((dose,start,dur,period,num),final,cum,expcum))
print('cases',n)
for w,k in sorted(res.items(), key=lambda kv:-len(kv[1])): print(len(k), w, '| e.g.', k[:3])
kinds={}
for (cfg,final,got,exp) in res.get('regimen table != scheduled pulses',[]):
    kinds.setdefault(('indefinite' if cfg[4] in (None,0) and cfg[3] is not None else 'finite/single', 'missing' if len(got)<len(exp) else 'extra'),[]).append((cfg,final))
for k,v in kinds.items(): print(k,len(v),v[:2])
