import numpy as np, chi, warnings, itertools, toy
warnings.simplefilter('ignore')
rng=np.random.default_rng(9)
res={}
def rec(w,k=None): res.setdefault(w,[]).append(k)
class ToyK(chi.MechanisticModel):
    """k outputs, y_o(t) = a*(o+1) + b*t*(o+1)"""
    def __init__(self,k): super().__init__(); self._k=k; self._s=False; self._out=['y%d'%i for i in range(k)]
    def enable_sensitivities(self,e,parameter_names=None): self._s=bool(e)
    def has_sensitivities(self): return self._s
    def n_outputs(self): return len(self._out)
    def n_parameters(self): return 2
    def outputs(self): return list(self._out)
    def parameters(self): return ['a','b']
    def set_outputs(self,o): self._out=list(o)
    def simulate(self,parameters,times):
        a,b=parameters; t=np.asarray(times,float); idx=[int(n[1:]) for n in self._out]
        y=np.array([a*(o+1)+b*t*(o+1) for o in idx])
        if not self._s: return y
        S=np.empty((len(t),len(idx),2))
        for j,o in enumerate(idx): S[:,j,0]=(o+1); S[:,j,1]=t*(o+1)
        return y,S
ems=[chi.GaussianErrorModel, chi.ConstantAndMultiplicativeGaussianErrorModel, chi.LogNormalErrorModel, chi.MultiplicativeGaussianErrorModel]
def dens(em,par,m,y):
    if em is chi.GaussianErrorModel: s=par[0]; return -0.5*np.log(2*np.pi)-np.log(s)-(y-m)**2/2/s**2
    if em is chi.MultiplicativeGaussianErrorModel: s=par[0]*m; return -0.5*np.log(2*np.pi)-np.log(s)-(y-m)**2/2/s**2
    if em is chi.ConstantAndMultiplicativeGaussianErrorModel: s=par[0]+par[1]*m; return -0.5*np.log(2*np.pi)-np.log(s)-(y-m)**2/2/s**2
    s=par[0]; return -0.5*np.log(2*np.pi)-np.log(s)-np.log(y)-(np.log(y)-np.log(m)+s**2/2)**2/2/s**2
pool=np.array([0.,0.5,1.,1.5,2.,3.])
n=0
for trial in range(600):
    k=int(rng.integers(1,4)); cls=[ems[int(i)] for i in rng.integers(0,4,size=k)]
    grids=[]
    for o in range(k):
        pat=rng.integers(0,5)
        if pat==0 and grids: g=grids[0].copy()
        elif pat==1: g=np.sort(rng.choice(pool,size=int(rng.integers(1,5)),replace=False))
        elif pat==2: g=np.array([float(rng.choice(pool))])
        elif pat==3: g=np.sort(rng.choice(pool,size=int(rng.integers(2,5)),replace=True))  # may contain ties
        else: g=np.sort(rng.choice(pool[::2],size=int(rng.integers(1,4)),replace=False))
        grids.append(g)
    obs=[rng.uniform(0.5,3,size=len(g)) for g in grids]
    ties=any(len(np.unique(g))<len(g) for g in grids)
    try: ll=chi.LogLikelihood(ToyK(k),[c() for c in cls],obs if k>1 else obs[0],grids if k>1 else grids[0])
    except Exception as e: rec('construct ERR '+type(e).__name__+str(e)[:40],(k,[g.tolist() for g in grids])); continue
    n+=1
    npar=ll.n_parameters(); x=rng.uniform(0.4,1.2,size=npar)
    mm=ToyK(k); pred=mm.simulate(x[:2],pool)  # predictions on pool
    ref=0.0; pw=[]; start=2
    for o in range(k):
        ne=cls[o]().n_parameters(); par=x[start:start+ne]; start+=ne
        for t,y in zip(grids[o],obs[o]):
            m=x[0]*(o+1)+x[1]*t*(o+1); d=dens(cls[o],par,m,y); ref+=d; pw.append(d)
    try:
        v=ll(x); p=ll.compute_pointwise_ll(x); s,g=ll.evaluateS1(x)
    except Exception as e: rec('eval ERR (ties=%s) '%ties+type(e).__name__+str(e)[:40]); continue
    if abs(v-ref)>1e-9*(1+abs(ref)): rec('value != sum of densities (ties=%s)'%ties,(k,[g.tolist() for g in grids]))
    if len(p)!=len(pw) or np.max(np.abs(np.array(p)-np.array(pw)))>1e-9: rec('pointwise order/values (ties=%s)'%ties)
    if abs(s-v)>1e-9*(1+abs(v)): rec('S1 score')
    eps=1e-5; num=np.array([(ll(x+eps*np.eye(npar)[i])-ll(x-eps*np.eye(npar)[i]))/2/eps for i in range(npar)])
    if np.max(np.abs(num-g)/(1+np.abs(num)))>1e-5: rec('gradient (ties=%s)'%ties)
    if ll.n_observations()!=[len(g) for g in grids]: rec('n_observations')
print('constructed',n)
for w,k in sorted(res.items(), key=lambda kv:-len(kv[1])): print(len(k), w, '| e.g.', k[:2])
