import simsub; simsub.install()
import numpy as np, chi, itertools, warnings
warnings.simplefilter('ignore')
from chi.library import ModelLibrary
L = ModelLibrary()
OPS = {
 'Ad': lambda m: (m.set_administration('central', direct=True), m)[1],
 'Ai': lambda m: (m.set_administration('central', direct=False), m)[1],
 'R1': lambda m: (m.set_dosing_regimen(dose=2.0, start=0.5, duration=0.25, period=1.0, num=2), m)[1],
 'R2': lambda m: (m.set_dosing_regimen(dose=1.0, start=0.0, duration=0.5), m)[1],
 'S+': lambda m: (m.enable_sensitivities(True), m)[1],
 'S-': lambda m: (m.enable_sensitivities(False), m)[1],
 'Oa': lambda m: (m.set_outputs(['central.drug_amount']), m)[1],
 'Oc': lambda m: (m.set_outputs(['central.drug_concentration', 'central.drug_amount']), m)[1],
 'C':  lambda m: m.copy(),
}
def observe(m):
    obs = {}
    try:
        obs['params'] = m.parameters(); obs['n'] = m.n_parameters(); obs['outputs'] = m.outputs()
        r = m.dosing_regimen(); obs['regimen'] = None if r is None else [(e.level(), e.start(), e.duration(), e.period(), e.multiplier()) for e in r.events()]
        obs['has_sens'] = m.has_sensitivities()
        p = np.linspace(0.5, 1.5, m.n_parameters())
        res = m.simulate(p, [0.25, 0.75, 1.5, 3.0])
        if isinstance(res, tuple): obs['y'] = np.round(res[0], 8).tolist(); obs['S'] = np.round(res[1], 5).tolist()
        else: obs['y'] = np.round(res, 8).tolist()
    except Exception as e:
        obs['error'] = type(e).__name__ + ': ' + str(e)[:60]
    return obs
def net(seq):
    """net configuration: last administration; last regimen (kept across administration changes);
    outputs set after the last administration (else default); last sensitivity switch after last admin/outputs change"""
    out = []
    last_admin = max([i for i, o in enumerate(seq) if o in ('Ad', 'Ai')], default=None)
    if last_admin is not None: out.append(seq[last_admin])
    regs = [o for o in seq if o in ('R1', 'R2')]
    # a regimen can only be set after an administration exists
    valid_regs = [o for i, o in enumerate(seq) if o in ('R1','R2') and any(s in ('Ad','Ai') for s in seq[:i])]
    if valid_regs: out.append(valid_regs[-1])
    outs = [(i, o) for i, o in enumerate(seq) if o in ('Oa', 'Oc')]
    if outs: out.append(outs[-1][1])
    # sensitivity: last S op, reset by Ad/Ai/O ops
    s = None
    for o in seq:
        if o in ('S+', 'S-'): s = o
        if o in ('Ad', 'Ai', 'Oa', 'Oc'): s = None
    if s == 'S+': out.append('S+')
    return out
def run(seq):
    m = L.one_compartment_pk_model()
    for o in seq:
        m = OPS[o](m)
    return m
bad = {}
n = 0
for k in (1, 2, 3):
    for seq in itertools.product(OPS, repeat=k):
        try: m = run(seq)
        except Exception as e:
            continue  # history itself rejected (e.g. regimen before administration)
        n += 1
        a = observe(m)
        try: b = observe(run(net(seq)))
        except Exception as e: b = {'error': 'net failed ' + str(e)[:40]}
        if a != b:
            keys = [x for x in set(a) | set(b) if a.get(x) != b.get(x)]
            bad.setdefault(tuple(sorted(keys)), []).append(seq)
print('histories run', n, 'mismatching', sum(len(v) for v in bad.values()))
for k, v in bad.items():
    print(k, len(v), v[:6])
