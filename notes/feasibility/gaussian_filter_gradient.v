From Coq Require Import Reals Lra List.
From Coquelicot Require Import Coquelicot.
Import ListNotations.
Open Scope R_scope.
Fixpoint Rsum (l : list R) : R := match l with [] => 0 | x :: t => x + Rsum t end.
Lemma is_derive_Rsum {A} (l : list A) (f : A -> R -> R) (d : A -> R) x :
  (forall a, In a l -> is_derive (f a) x (d a)) ->
  is_derive (fun t => Rsum (map (fun a => f a t) l)) x (Rsum (map d l)).
Proof.
  induction l as [|a l IH]; intros H; simpl.
  - apply @is_derive_const.
  - apply @is_derive_plus.
    + apply H. now left.
    + apply IH. intros b Hb. apply H. now right.
Qed.

(* One cell of the Gaussian filter, as a function of one simulated value t.
   A = sum of the other simulated values, B = sum of their squares, n = n_sim (as a real). *)
Definition mu (A n t : R) := (A + t) / n.
Definition var (A B n t : R) := ((B + t^2) - (A + t)^2 / n) / (n - 1).
Definition term (A B n x t : R) := (ln (2*PI) + ln (var A B n t) + (x - mu A n t)^2 / var A B n t) / 2.

Lemma d_term A B n x t : 1 < n -> 0 < var A B n t ->
  is_derive (fun t => - term A B n x t) t
   ( (x - mu A n t) / var A B n t / n
     + (- 1 / var A B n t + (x - mu A n t)^2 / (var A B n t)^2) * (t - mu A n t) / (n - 1) ).
Proof.
  intros Hn Hv. unfold term.
  assert (Hv' := Hv). unfold var in Hv'.
  assert (Hnum : 0 < (B + t ^ 2) * n - (A + t) ^ 2).
  { assert (0 < (B + t ^ 2 - (A + t) ^ 2 / n)) as Hp.
    { apply Rmult_lt_reg_r with (/ (n - 1)); [apply Rinv_0_lt_compat; lra|]. rewrite Rmult_0_l. exact Hv'. }
    replace ((B + t ^ 2) * n - (A + t) ^ 2) with ((B + t ^ 2 - (A + t) ^ 2 / n) * n) by (field; lra).
    apply Rmult_lt_0_compat; lra. }
  unfold var, mu. auto_derive.
  - repeat split; try lra; try (apply Rgt_not_eq; exact Hv').
  - unfold var, mu in *. field. repeat split; try lra; try (apply Rgt_not_eq; exact Hnum).
Qed.

(* whole cell: sum over measured individuals xs *)
Lemma d_cell A B n (xs : list R) t : 1 < n -> 0 < var A B n t ->
  is_derive (fun t => Rsum (map (fun x => - term A B n x t) xs)) t
    (Rsum (map (fun x => (x - mu A n t) / var A B n t / n
     + (- 1 / var A B n t + (x - mu A n t)^2 / (var A B n t)^2) * (t - mu A n t) / (n - 1)) xs)).
Proof.
  intros Hn Hv. apply (is_derive_Rsum xs (fun x t => - term A B n x t)).
  intros x _. now apply d_term.
Qed.
