import numpy as np, chi, toy, pints, warnings, itertools, traceback
warnings.simplefilter('ignore')
rng = np.random.default_rng(0)
if __name__ != "__main__": raise SystemExit
class ToyN(chi.MechanisticModel):
    """n params, 1 output: y(t) = sum_k p_k * (1 + k t) ; exact sensitivities"""
    def __init__(self, n): super().__init__(); self._n=n; self._s=False
    def enable_sensitivities(self, e, parameter_names=None): self._s=bool(e)
    def has_sensitivities(self): return self._s
    def n_outputs(self): return 1
    def n_parameters(self): return self._n
    def outputs(self): return ['y']
    def parameters(self): return ['p%d'%k for k in range(self._n)]
    def simulate(self, parameters, times):
        p=np.asarray(parameters,float); t=np.asarray(times,float)
        B=np.array([(1+k*t) for k in range(self._n)])      # (n, T)
        y=(p[:,None]*B).sum(0)[None,:]
        if not self._s: return y
        return y, B.T[:,None,:].copy()
def make_sub(kind, nd):
    if kind=='G': return chi.GaussianModel(n_dim=nd)
    if kind=='Gn': return chi.GaussianModel(n_dim=nd, centered=False)
    if kind=='L': return chi.LogNormalModel(n_dim=nd)
    if kind=='Ln': return chi.LogNormalModel(n_dim=nd, centered=False)
    if kind=='T': return chi.TruncatedGaussianModel(n_dim=nd)
    if kind=='P': return chi.PooledModel(n_dim=nd)
    if kind=='H': return chi.HeterogeneousModel(n_dim=nd)
kinds=['G','Gn','L','Ln','T','P','H']
results={}
def record(key, what):
    results.setdefault(what, set()).add(key)
cases=0
for n_sub in (1,2,3):
  for combo in itertools.product(kinds, repeat=n_sub):
    for trial in range(1 if n_sub==3 else 2):
        nds=[int(rng.integers(1,3)) for _ in combo]
        cov=[bool(rng.integers(0,2)) and n_sub<3 for _ in combo]
        n_ids=int(rng.integers(2,4))
        subs=[]
        for k,nd,cv in zip(combo,nds,cov):
            s=make_sub(k,nd)
            if cv: s=chi.CovariatePopulationModel(s, chi.LinearCovariateModel(n_cov=1))
            subs.append(s)
        key=tuple((k+('c' if cv else ''), nd) for k,nd,cv in zip(combo,nds,cov))
        try:
            pop=chi.ComposedPopulationModel(subs) if n_sub>1 else subs[0]
            ndim=pop.n_dim()
            lls=[chi.LogLikelihood(ToyN(ndim-1), chi.GaussianErrorModel(), rng.uniform(1,3,size=3), [0.,1.,2.]) for _ in range(n_ids)]
            covs=rng.uniform(0.5,1.5,size=(n_ids,pop.n_covariates())) if pop.n_covariates() else None
            h=chi.HierarchicalLogLikelihood(lls,pop,covariates=covs)
        except Exception as e:
            record(key,'construct:'+type(e).__name__); continue
        cases+=1
        n=h.n_parameters()
        names=h.get_parameter_names(include_ids=True); ids=h.get_id()
        if len(names)!=n or len(ids)!=n: record(key,'names/ids length')
        # build a parameter vector in the support: make delta models consistent is automatic (pooled/hetero are top-level)
        x=rng.uniform(0.6,1.4,size=n)
        try: v=h(x)
        except Exception as e: record(key,'call:'+type(e).__name__+':'+str(e)[:40]); continue
        try: s,g=h.evaluateS1(x)
        except Exception as e: record(key,'S1:'+type(e).__name__+':'+str(e)[:40]); continue
        if not np.isfinite(v): record(key,'nonfinite score'); continue
        if len(g)!=n: record(key,'grad length %d vs %d'%(len(g),n)); continue
        if abs(s-v)>1e-9*(1+abs(v)): record(key,'S1 score differs')
        eps=1e-6; num=np.array([(h(x+eps*np.eye(n)[k])-h(x-eps*np.eye(n)[k]))/2/eps for k in range(n)])
        err=np.abs(num-g)/(1+np.abs(num))
        if np.max(err)>1e-5: record(key,'gradient wrong at positions '+str([names[i] for i in np.where(err>1e-5)[0]][:3]))
print('cases evaluated', cases)
for what, keys in sorted(results.items(), key=lambda kv: -len(kv[1])):
    print(len(keys), what, '| e.g.', sorted(keys)[:3])
