import numpy as np, chi
class Toy(chi.MechanisticModel):
    """two outputs: y0 = a*exp(-b t), y1 = a + b*t ; params a,b"""
    def __init__(self, n_out=2):
        super().__init__(); self._has_sens=False; self._n_out=n_out
        self._out=['y%d'%i for i in range(n_out)]
    def enable_sensitivities(self, enabled, parameter_names=None):
        self._has_sens=bool(enabled)
        self._sens_idx=[0,1] if parameter_names is None else [i for i,n in enumerate(['a','b']) if n in list(parameter_names)]
    def has_sensitivities(self): return self._has_sens
    def n_outputs(self): return self._n_out
    def n_parameters(self): return 2
    def outputs(self): return list(self._out)
    def parameters(self): return ['a','b']
    def set_outputs(self, o): self._out=list(o); self._n_out=len(o)
    def simulate(self, parameters, times):
        a,b=parameters; t=np.asarray(times,dtype=float)
        ys=[a*np.exp(-b*t), a+b*t][:self._n_out]
        y=np.array(ys)
        if not self._has_sens: return y
        s=np.empty((len(t),self._n_out,2))
        d=[(np.exp(-b*t), -a*t*np.exp(-b*t)),(np.ones_like(t), t)]
        for o in range(self._n_out):
            s[:,o,0]=d[o][0]; s[:,o,1]=d[o][1]
        return y,s[:,:,getattr(self,'_sens_idx',[0,1])]
