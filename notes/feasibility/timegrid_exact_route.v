From Coq Require Import List ZArith Bool.
Import ListNotations.
Open Scope Z_scope.

(* times coded as Z (dyadic rationals scaled by 2^k in the harness) *)
Fixpoint insert_uniq (x : Z) (l : list Z) : list Z :=
  match l with
  | [] => [x]
  | y :: t => if x <? y then x :: l else if x =? y then l else y :: insert_uniq x t
  end.
Definition union (ts : list (list Z)) : list Z := fold_right insert_uniq [] (concat ts).
Definition mask (u ts : list Z) : list bool := map (fun x => existsb (Z.eqb x) ts) u.
Fixpoint select {V} (m : list bool) (v : list V) : list V :=
  match m, v with
  | b :: m', x :: v' => if b then x :: select m' v' else select m' v'
  | _, _ => []
  end.
Inductive res (A : Type) := Ok (a : A) | RaiseValueError.
Arguments Ok {A}. Arguments RaiseValueError {A}.
Definition pairs {V} (pred : nat -> Z -> V) (o : nat) (ts : list (list Z)) (obs : list (list Z)) : res (list (V * Z)) :=
  let u := union ts in
  let t_o := nth o ts [] in
  let sel := select (mask u t_o) (map (pred o) u) in
  let y := nth o obs [] in
  if Nat.eqb (length sel) (length y) then Ok (combine sel y) else RaiseValueError.

Definition run (ts obs : list (list Z)) := map (fun o => pairs (fun o t => (Z.of_nat o * 1000 + t)) o ts obs) (seq 0 (length ts)).
Eval vm_compute in run [[0;2;4];[2;3]] [[10;11;12];[20;21]].
Eval vm_compute in run [[0;2;2;4]] [[10;11;12;13]].
