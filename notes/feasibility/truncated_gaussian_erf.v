From Coq Require Import Reals Lra ssreflect.
From Coquelicot Require Import Coquelicot.
Open Scope R_scope.

Definition erf (x : R) : R := 2 / sqrt PI * RInt (fun t => exp (- t^2)) 0 x.

Lemma sqrtPI_pos : 0 < sqrt PI.
Proof. apply sqrt_lt_R0, PI_RGT_0. Qed.

Lemma cont_gauss t : continuous (fun t => exp (- t^2)) t.
Proof. apply: ex_derive_continuous. auto_derive. auto. Qed.

Lemma is_derive_erf x : is_derive erf x (2 / sqrt PI * exp (- x^2)).
Proof.
  unfold erf.
  apply: is_derive_scal.
  apply: (is_derive_RInt (fun t => exp (- t^2)) _ 0).
  - apply filter_forall => y. apply: RInt_correct. apply: ex_RInt_continuous => z _. apply cont_gauss.
  - apply cont_gauss.
Qed.

Definition Phi (x : R) : R := (1 + erf (x / sqrt 2)) / 2.
Definition phi (x : R) : R := exp (- x^2 / 2) / sqrt (2 * PI).


Lemma Derive_erf y : Derive erf y = 2 / sqrt PI * exp (- y^2).
Proof. apply is_derive_unique, is_derive_erf. Qed.
Lemma ex_derive_erf y : ex_derive erf y.
Proof. eexists; apply is_derive_erf. Qed.
Global Opaque erf.

Lemma sqrt2_pos : 0 < sqrt 2. Proof. apply sqrt_lt_R0; lra. Qed.

Lemma is_derive_Phi x : is_derive Phi x (phi x).
Proof.
  unfold Phi, phi. auto_derive.
  - apply ex_derive_erf.
  - rewrite Derive_erf.
    assert (E : sqrt (2 * PI) = sqrt 2 * sqrt PI) by (apply sqrt_mult; [lra | generalize PI_RGT_0; lra]). rewrite E.
    replace (- (x * / sqrt 2) ^ 2) with (- x ^ 2 / 2).
    2:{ replace ((x * / sqrt 2)^2) with (x^2 / (sqrt 2 * sqrt 2)) by (field; apply Rgt_not_eq, sqrt2_pos). rewrite sqrt_sqrt; lra. }
    field. split; apply Rgt_not_eq; [apply sqrtPI_pos | apply sqrt2_pos].
Qed.

(* truncated Gaussian log-density and its mu-derivative, as in chi *)
Definition tg_ll (mu sigma psi : R) : R :=
  - (ln (2 * PI * sigma^2) / 2 + (psi - mu)^2 / (2 * sigma^2) + ln (1 - Phi (- mu / sigma))).

Lemma tg_dmu mu sigma psi : 0 < sigma -> Phi (- mu / sigma) < 1 ->
  is_derive (fun mu => tg_ll mu sigma psi) mu
    (((psi - mu) / sigma - phi (mu / sigma) / (1 - Phi (- mu / sigma))) / sigma).
Proof.
  intros Hs HP. unfold tg_ll.
  auto_derive.
  - repeat split; try lra. eexists; apply is_derive_Phi. 
  - rewrite (is_derive_unique _ _ _ (is_derive_Phi _)).
    unfold phi. replace ((- mu * / sigma)^2) with ((mu / sigma)^2) by (field; lra).
    change (- mu * / sigma) with (- mu / sigma). set (P := Phi (- mu / sigma)) in *.
    field. repeat split; try lra. apply Rgt_not_eq. apply sqrt_lt_R0. generalize PI_RGT_0; lra.
Qed.
Print Assumptions tg_dmu.
