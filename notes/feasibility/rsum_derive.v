From Coq Require Import Reals Lra List.
From Coquelicot Require Import Coquelicot.
Import ListNotations.
Open Scope R_scope.
Fixpoint Rsum (l : list R) : R := match l with [] => 0 | x :: t => x + Rsum t end.

Lemma is_derive_Rsum {A} (l : list A) (f : A -> R -> R) (d : A -> R) x :
  (forall a, In a l -> is_derive (f a) x (d a)) ->
  is_derive (fun t => Rsum (map (fun a => f a t) l)) x (Rsum (map d l)).
Proof.
  induction l as [|a l IH]; intros H; simpl.
  - apply @is_derive_const.
  - apply @is_derive_plus.
    + apply H. now left.
    + apply IH. intros b Hb. apply H. now right.
Qed.
Print Assumptions is_derive_Rsum.

Lemma gnorm (m s : R) : 0 < s ->
  is_RInt_gen (fun u => exp (- u^2 / 2)) (Rbar_locally m_infty) (Rbar_locally p_infty) (sqrt (2*PI)) ->
  is_RInt_gen (fun y => / s * exp (- ((y - m) / s)^2 / 2)) (Rbar_locally m_infty) (Rbar_locally p_infty) (sqrt (2*PI)).
Proof.
  intros Hs H.
  Check @is_RInt_gen_comp_lin.
Abort.
