From Coq Require Import Reals Lra List.
From Coquelicot Require Import Coquelicot.
From Interval Require Import Tactic.
Open Scope R_scope.
Definition gauss_ll (m y s : R) : R :=
  - (ln (2 * PI) / 2 + ln s) - (m - y)^2 / s^2 / 2.
Lemma d_psi (f : R -> R) x df y s : 0 < s ->
  is_derive f x df ->
  is_derive (fun x => gauss_ll (f x) y s) x ((y - f x) * df / s^2).
Proof.
  intros Hs Hf. unfold gauss_ll.
  auto_derive.
  - exists df; exact Hf.
  - replace (Derive (fun x0 : R => f x0) x) with df by (symmetry; apply is_derive_unique; exact Hf). field. lra.
Qed.
Print Assumptions d_psi.
Lemma corr : Rabs (gauss_ll (3/2) (9/4) (5/8) - (-1.1689349039589372)) <= 1/1000000000000.
Proof. unfold gauss_ll. interval with (i_prec 80). Qed.
Print Assumptions corr.
Lemma sum_d (f : nat -> R -> R) (d : nat -> R) n x :
  (forall k, (k <= n)%nat -> is_derive (f k) x (d k)) ->
  is_derive (fun y => sum_n (fun k => f k y) n) x (sum_n d n).
Proof. apply is_derive_sum_n. Qed.
Print Assumptions sum_d.
Lemma gnorm (m s : R) : 0 < s ->
  is_RInt_gen (fun u => exp (- u^2 / 2)) (Rbar_locally m_infty) (Rbar_locally p_infty) (sqrt (2*PI)) ->
  is_RInt_gen (fun y => / s * exp (- ((y - m) / s)^2 / 2)) (Rbar_locally m_infty) (Rbar_locally p_infty) (sqrt (2*PI)).
Proof.
Abort.
Check @is_RInt_gen_comp_lin.
