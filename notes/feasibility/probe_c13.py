import numpy as np, chi, warnings, itertools, pints
warnings.simplefilter('ignore')
rng=np.random.default_rng(2)
if __name__ != "__main__": raise SystemExit
class ToyN(chi.MechanisticModel):
    def __init__(self, n): super().__init__(); self._n=n; self._s=False
    def enable_sensitivities(self, e, parameter_names=None): self._s=bool(e)
    def has_sensitivities(self): return self._s
    def n_outputs(self): return 1
    def n_parameters(self): return self._n
    def outputs(self): return ['y']
    def parameters(self): return ['p%d'%k for k in range(self._n)]
    def simulate(self, parameters, times):
        p=np.asarray(parameters,float); t=np.asarray(times,float)
        B=np.array([(1+k*t) for k in range(self._n)]); y=(p[:,None]*B).sum(0)[None,:]
        if not self._s: return y
        return y, B.T[:,None,:].copy()
def make_sub(kind, nd):
    return {'G':lambda: chi.GaussianModel(n_dim=nd),'Gn':lambda: chi.GaussianModel(n_dim=nd, centered=False),'L':lambda: chi.LogNormalModel(n_dim=nd),
            'Ln':lambda: chi.LogNormalModel(n_dim=nd, centered=False),'T':lambda: chi.TruncatedGaussianModel(n_dim=nd),'P':lambda: chi.PooledModel(n_dim=nd),'H':lambda: chi.HeterogeneousModel(n_dim=nd)}[kind]()
kinds=['G','Gn','L','Ln','T','P','H']
res={}
def rec(key, what): res.setdefault(what,set()).add(key)
cases=0
for n_sub in (1,2,3):
  for combo in itertools.product(kinds, repeat=n_sub):
    nds=[int(rng.integers(1,3)) for _ in combo]
    key=tuple(zip(combo,nds))
    for free_sigma, log_scale in ((False,False),(True,True)):
        try:
            subs=[make_sub(k,nd) for k,nd in zip(combo,nds)]
            pop=chi.ComposedPopulationModel(subs) if n_sub>1 else subs[0]
            n_s=3; times=[2.0,0.5,1.0]
            obs=np.abs(rng.normal(size=(4,1,3)))+1
            pop.set_n_ids(n_s)
            ntop=pop.n_parameters()+(1 if free_sigma else 0)
            fp=chi.PopulationFilterLogPosterior(chi.GaussianFilter(obs),times,ToyN(pop.n_dim()),pop,pints.ComposedLogPrior(*[pints.UniformLogPrior(0.01,5)]*ntop),sigma=None if free_sigma else [0.2],error_on_log_scale=log_scale,n_samples=n_s)
        except Exception as e: rec(key,'construct:'+type(e).__name__+str(e)[:40]); continue
        cases+=1; n=fp.n_parameters()
        names=fp.get_parameter_names(include_ids=True); ids=fp.get_id()
        if len(names)!=n or len(ids)!=n: rec(key,'names/ids length %d %d vs %d'%(len(names),len(ids),n))
        x=rng.uniform(0.6,1.4,size=n)
        try: v=fp(x)
        except Exception as e: rec(key,'call:'+type(e).__name__+str(e)[:40]); continue
        try: s,g=fp.evaluateS1(x)
        except Exception as e: rec(key,'S1:'+type(e).__name__+str(e)[:40]); continue
        if not np.isfinite(v): rec(key,'nonfinite score (finite expected)'); continue
        if len(g)!=n: rec(key,'grad length'); continue
        if abs(s-v)>1e-9*(1+abs(v)): rec(key,'S1 score differs')
        eps=1e-4; num=np.array([(fp(x+eps*np.eye(n)[k])-fp(x-eps*np.eye(n)[k]))/2/eps for k in range(n)])
        err=np.abs(num-g)/(1+np.abs(num))
        if err.max()>1e-4: rec(key,'gradient wrong e.g. '+names[int(err.argmax())].split(' ')[-2 if 'Sim' in names[int(err.argmax())] else 0])
        try:
            ip=fp.sample_initial_parameters(seed=1)
            if ip.shape!=(1,n): rec(key,'init shape')
        except Exception as e: rec(key,'init:'+type(e).__name__+str(e)[:40])
print('cases', cases)
for what, keys in sorted(res.items(), key=lambda kv:-len(kv[1])): print(len(keys), what, '| e.g.', sorted(keys)[:3])
