import numpy as np, chi, warnings, itertools
warnings.simplefilter('ignore')
rng=np.random.default_rng(3)
res={}
def rec(k,w): res.setdefault(w,set()).add(k)
def models(nd):
    return {'G':chi.GaussianModel(n_dim=nd),'Gn':chi.GaussianModel(n_dim=nd,centered=False),'L':chi.LogNormalModel(n_dim=nd),'Ln':chi.LogNormalModel(n_dim=nd,centered=False),
            'T':chi.TruncatedGaussianModel(n_dim=nd),'P':chi.PooledModel(n_dim=nd)}
for nd in (1,2,3):
  for name,m in models(nd).items():
    for n_ids in (1,3):
        m.set_n_ids(n_ids); key=(name,nd,n_ids)
        p=m.n_parameters(); theta=rng.uniform(0.6,1.4,size=p)
        psi=rng.uniform(0.5,1.5,size=(n_ids,nd))
        if name=='P': psi=np.broadcast_to(theta.reshape(1,nd),(n_ids,nd)).copy()
        up=rng.normal(size=(n_ids,nd))
        def score(th,ps): return m.compute_log_likelihood(th,ps)
        try:
            v=score(theta,psi)
            s,dpsi,dth=m.compute_sensitivities(theta,psi)
            s2,dpsi2,dth2=m.compute_sensitivities(theta,psi,dlogp_dpsi=up)
            sr,dr=m.compute_sensitivities(theta,psi,reduce=True)
            sf,dpsif,dthf=m.compute_sensitivities(theta,psi,flattened=False)
        except Exception as e: rec(key,'ERR '+type(e).__name__+str(e)[:50]); continue
        nb,nt=m.n_hierarchical_parameters(n_ids)
        if len(np.ravel(dth))!=p: rec(key,'dtheta length %d vs n_parameters %d'%(len(np.ravel(dth)),p))
        if len(dr)!=nb+nt: rec(key,'reduced length %d vs %d'%(len(dr),nb+nt))
        if abs(s-v)>1e-10*(1+abs(v)): rec(key,'score differs')
        if name!='P':
            eps=1e-6
            num=np.array([(score(theta+eps*np.eye(p)[k],psi)-score(theta-eps*np.eye(p)[k],psi))/2/eps for k in range(p)])
            if name in ('Gn','Ln'): num=np.zeros(p)   # non-centred score does not depend on theta; dtheta only carries upstream
            if len(np.ravel(dth))==p and np.max(np.abs(np.ravel(dth)-num)/(1+np.abs(num)))>1e-5: rec(key,'dtheta wrong')
            nump=np.zeros((n_ids,nd))
            for i in range(n_ids):
                for d in range(nd):
                    e=np.zeros((n_ids,nd)); e[i,d]=eps; nump[i,d]=(score(theta,psi+e)-score(theta,psi-e))/2/eps
            if np.max(np.abs(dpsi-nump)/(1+np.abs(nump)))>1e-5: rec(key,'dpsi wrong')
            # layouts
            pm=theta.reshape(p//nd,nd); pt=np.broadcast_to(pm[None],(n_ids,)+pm.shape).copy()
            for lay,par in (('matrix',pm),('tensor',pt)):
                try:
                    if abs(m.compute_log_likelihood(par,psi)-v)>1e-10*(1+abs(v)): rec(key,lay+' layout: score differs')
                    sl=m.compute_sensitivities(par,psi)
                    if abs(sl[0]-v)>1e-10*(1+abs(v)) or np.max(np.abs(sl[1]-dpsi))>1e-9: rec(key,lay+' layout: sensitivities differ')
                    ip=m.compute_individual_parameters(par,psi); ip0=m.compute_individual_parameters(theta,psi)
                    if np.max(np.abs(np.asarray(ip)-np.asarray(ip0)))>1e-12: rec(key,lay+' layout: individual parameters differ')
                except Exception as e: rec(key,lay+' layout ERR '+type(e).__name__+str(e)[:40])
for w,k in sorted(res.items(), key=lambda kv:-len(kv[1])): print(len(k), w, '| e.g.', sorted(k)[:4])
