(* Prototype: ComposedPopulationModel._shape_eta as a list program, and its gather spec *)
From Coq Require Import List Arith Lia Bool.
Import ListNotations.

Section ShapeEta.
Variable V : Type.

(* special dimension ranges [s0, s1), sorted, disjoint *)
Fixpoint wf (start : nat) (sp : list (nat * nat)) (n_dim : nat) : Prop :=
  match sp with
  | [] => start <= n_dim
  | (s0, s1) :: rest => start <= s0 /\ s0 <= s1 /\ wf s1 rest n_dim
  end.

(* code-level: the start/shift loop, producing [None] for the dummy columns *)
Fixpoint shape (sp : list (nat * nat)) (start shift : nat) (row : list V) : list (option V) :=
  match sp with
  | [] => map Some (skipn (start - shift) row)
  | (s0, s1) :: rest =>
      map Some (firstn (s0 - start) (skipn (start - shift) row))
      ++ repeat None (s1 - s0)
      ++ shape rest s1 (shift + (s1 - s0)) row
  end.

(* spec-level *)
Fixpoint special_below (sp : list (nat * nat)) (d : nat) : nat :=
  match sp with
  | [] => 0
  | (s0, s1) :: rest => (if d <? s0 then 0 else if d <? s1 then d - s0 else s1 - s0) + special_below rest d
  end.
Fixpoint is_special (sp : list (nat * nat)) (d : nat) : bool :=
  match sp with
  | [] => false
  | (s0, s1) :: rest => ((s0 <=? d) && (d <? s1)) || is_special rest d
  end.
Definition gather (sp : list (nat * nat)) (row : list V) (d : nat) : option (option V) :=
  if is_special sp d then Some None
  else match nth_error row (d - special_below sp d) with Some v => Some (Some v) | None => None end.

Fixpoint n_special (sp : list (nat * nat)) : nat :=
  match sp with [] => 0 | (s0, s1) :: rest => (s1 - s0) + n_special rest end.

Lemma nth_error_map_Some {A} (l : list A) k :
  nth_error (map Some l) k = match nth_error l k with Some v => Some (Some v) | None => None end.
Proof. rewrite nth_error_map. destruct (nth_error l k); reflexivity. Qed.

Lemma nth_error_skipn {A} (l : list A) a k : nth_error (skipn a l) k = nth_error l (a + k).
Proof. revert l; induction a as [|a IH]; intros l; simpl; [reflexivity|]. destruct l; [destruct k; reflexivity|]. apply IH. Qed.

Lemma nth_error_firstn {A} (l : list A) a k : k < a -> nth_error (firstn a l) k = nth_error l k.
Proof. revert l k; induction a as [|a IH]; intros l k H; [lia|]. destruct l; [destruct k; reflexivity|]. destruct k; simpl; [reflexivity|]. apply IH; lia. Qed.

Lemma nth_error_repeat_None k n : k < n -> nth_error (repeat (@None V) n) k = Some None.
Proof. revert k; induction n as [|n IH]; intros k H; [lia|]. destruct k; simpl; [reflexivity|]. apply IH; lia. Qed.

(* generalised statement with the loop invariant: shift = number of special dims below start,
   all entries of sp lie at or above start, row long enough *)
Lemma shape_gather_gen : forall sp start shift row n_dim d,
  wf start sp n_dim -> shift <= start ->
  length row = n_dim - (shift + n_special sp) -> shift + n_special sp <= n_dim ->
  start <= d -> d < n_dim ->
  nth_error (shape sp start shift row) (d - start) =
    (if is_special sp d then Some None
     else match nth_error row (d - (shift + special_below sp d)) with Some v => Some (Some v) | None => None end).
Proof.
  induction sp as [|[s0 s1] rest IH]; intros start shift row n_dim d Hwf Hsh Hlen Hn Hd Hdn; simpl in *.
  - rewrite nth_error_map_Some, nth_error_skipn. f_equal. replace (start - shift + (d - start)) with (d - (shift + 0)) by lia. reflexivity.
  - destruct Hwf as (H0 & H1 & Hwf).
    assert (Hlen1 : length (map Some (firstn (s0 - start) (skipn (start - shift) row))) = s0 - start).
    { rewrite map_length, firstn_length, skipn_length.
      assert (Hs1 : s1 + n_special rest <= n_dim). { clear -Hwf. revert s1 Hwf. induction rest as [|[a b] r IHr]; simpl; intros; [lia|]. destruct Hwf as (?&?&?). specialize (IHr _ H1). lia. }
      lia. }
    destruct (d <? s0) eqn:E0; [apply Nat.ltb_lt in E0 | apply Nat.ltb_ge in E0].
    + (* leading regular dims *)
      rewrite nth_error_app1 by lia.
      replace ((s0 <=? d) && (d <? s1)) with false by (symmetry; apply andb_false_iff; left; apply Nat.leb_gt; lia).
      simpl.
      assert (Hr : is_special rest d = false /\ special_below rest d = 0).
      { clear -Hwf E0 H1. revert s1 Hwf H1. induction rest as [|[a b] r IHr]; simpl; intros s1 Hwf H1; [auto|].
        destruct Hwf as (Ha & Hb & Hwf). destruct (IHr b Hwf ltac:(lia)) as [E1 E2].
        replace (a <=? d) with false by (symmetry; apply Nat.leb_gt; lia). rewrite E1.
        replace (d <? a) with true by (symmetry; apply Nat.ltb_lt; lia). rewrite E2. auto. }
      destruct Hr as [-> ->].
      rewrite nth_error_map_Some, nth_error_firstn by lia. rewrite nth_error_skipn.
      replace (start - shift + (d - start)) with (d - (shift + (0 + 0))) by lia. reflexivity.
    + rewrite nth_error_app2 by lia. rewrite Hlen1.
      destruct (d <? s1) eqn:E1; [apply Nat.ltb_lt in E1 | apply Nat.ltb_ge in E1].
      * (* inside the special range *)
        replace (s0 <=? d) with true by (symmetry; apply Nat.leb_le; lia).
        simpl. rewrite nth_error_app1 by (rewrite repeat_length; lia).
        apply nth_error_repeat_None. lia.
      * rewrite andb_false_r.
        simpl. rewrite nth_error_app2 by (rewrite repeat_length; lia). rewrite repeat_length.
        replace (d - start - (s0 - start) - (s1 - s0)) with (d - s1) by lia.
        rewrite (IH s1 (shift + (s1 - s0)) row n_dim d); try lia; try assumption.
        replace (shift + (s1 - s0) + special_below rest d) with (shift + (s1 - s0 + special_below rest d)) by lia.
        reflexivity.
Qed.

Theorem shape_eta_is_gather : forall sp row n_dim d,
  wf 0 sp n_dim -> length row = n_dim - n_special sp -> n_special sp <= n_dim -> d < n_dim ->
  nth_error (shape sp 0 0 row) d = gather sp row d.
Proof.
  intros sp row n_dim d Hwf Hlen Hn Hd. unfold gather.
  pose proof (shape_gather_gen sp 0 0 row n_dim d Hwf (le_n 0)) as H. simpl in H.
  rewrite Nat.sub_0_r in H. apply H; try lia.
Qed.
End ShapeEta.
Print Assumptions shape_eta_is_gather.
Eval vm_compute in shape nat [(1,2);(4,6)] 0 0 [10;11;12;13].
