import numpy as np, chi, warnings, itertools, pints, toy
warnings.simplefilter('ignore')
rng=np.random.default_rng(8)
res={}
def rec(w,k=None): res.setdefault(w,[]).append(k)
def make_sub(kind, nd):
    return {'G':lambda: chi.GaussianModel(n_dim=nd),'Gn':lambda: chi.GaussianModel(n_dim=nd, centered=False),'L':lambda: chi.LogNormalModel(n_dim=nd),
            'Ln':lambda: chi.LogNormalModel(n_dim=nd, centered=False),'P':lambda: chi.PooledModel(n_dim=nd),'H':lambda: chi.HeterogeneousModel(n_dim=nd)}[kind]()
class ToyN(chi.MechanisticModel):
    def __init__(self, n): super().__init__(); self._n=n; self._s=False
    def enable_sensitivities(self, e, parameter_names=None): self._s=bool(e)
    def has_sensitivities(self): return self._s
    def n_outputs(self): return 1
    def n_parameters(self): return self._n
    def outputs(self): return ['y']
    def parameters(self): return ['p%d'%k for k in range(self._n)]
    def simulate(self, parameters, times):
        p=np.asarray(parameters,float); t=np.asarray(times,float)
        B=np.array([(1+k*t) for k in range(self._n)]); y=(p[:,None]*B).sum(0)[None,:]
        return y
kinds=['G','Gn','L','Ln','P','H']
n_cases=0
for n_sub in (1,2,3):
  for combo in itertools.product(kinds, repeat=n_sub):
    nds=[int(rng.integers(1,3)) for _ in combo]; key=tuple(zip(combo,nds)); n_ids=int(rng.integers(2,4))
    subs=[make_sub(k,nd) for k,nd in zip(combo,nds)]
    pop=chi.ComposedPopulationModel(subs) if n_sub>1 else subs[0]
    ndim=pop.n_dim()
    if ndim<2: continue
    lls=[chi.LogLikelihood(ToyN(ndim-1), chi.GaussianErrorModel(), rng.uniform(1,3,size=3), [0.,1.,2.]) for _ in range(n_ids)]
    for i,l in enumerate(lls): l.set_id('id%d'%(i+7))
    h=chi.HierarchicalLogLikelihood(lls,pop); post=chi.HierarchicalLogPosterior(h, pints.ComposedLogPrior(*[pints.UniformLogPrior(0.2,2)]*h.n_parameters(True)))
    n=post.n_parameters(); n_cases+=1
    # initial parameters
    try:
        ip=post.sample_initial_parameters(n_samples=2, seed=3); ip2=post.sample_initial_parameters(n_samples=2, seed=3)
        if ip.shape!=(2,n): rec('init shape',key)
        if not np.array_equal(ip,ip2): rec('init not reproducible',key)
        for row in ip:
            v=post(row)
            # prior+population contributions finite? evaluate population part only
            nb=n-h.n_parameters(True); top=row[nb:]
            eta=pop.compute_individual_parameters(top,row[:nb],return_eta=True) if nb>0 else None
            ps=pop.compute_log_likelihood(top, eta if eta is not None else pop.compute_individual_parameters(top,row[:nb],return_eta=True))
            if not np.isfinite(ps): rec('init: population contribution not finite',key)
    except Exception as e: rec('init ERR '+type(e).__name__+str(e)[:50],key)
    # chain formatting with tagged chains
    ctrl=chi.SamplingController.__new__(chi.SamplingController); ctrl._log_posterior=post
    chains=np.arange(2*3*n,dtype=float).reshape(2,3,n)
    try: ds=ctrl._format_chains(chains, None)
    except Exception as e: rec('format ERR '+type(e).__name__+str(e)[:50],key); continue
    names=post.get_parameter_names(); ids=post.get_id(); uids=post.get_id(unique=True)
    seen=np.zeros(n,bool)
    for name in set(names):
        pos=[k for k,nm in enumerate(names) if nm==name]
        if name not in ds: rec('name missing in dataset',(key,name)); continue
        arr=ds[name].values
        if ids[pos[0]] is None:
            if len(pos)!=1: rec('duplicate top-level name',(key,name)); 
            if arr.shape!=(2,3) or not np.array_equal(arr,chains[:,:,pos[0]]): rec('top-level values misplaced',(key,name))
        else:
            if arr.shape!=(2,3,len(uids)): rec('bottom shape',(key,name)); continue
            for j,u in enumerate(list(ds[name].individual.values)):
                k=[q for q in pos if ids[q]==u]
                if len(k)!=1 or not np.array_equal(arr[:,:,j],chains[:,:,k[0]]): rec('bottom values misplaced',(key,name,u))
        seen[pos]=True
    if not seen.all(): rec('positions not represented',key)
print('cases',n_cases)
for w,k in sorted(res.items(), key=lambda kv:-len(kv[1])): print(len(k), w, '| e.g.', k[:3])
