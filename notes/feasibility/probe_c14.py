import simsub; simsub.install()
import numpy as np, pandas as pd, chi, warnings, pints
warnings.simplefilter('ignore')
from chi.library import ModelLibrary
L = ModelLibrary()
m = L.one_compartment_pk_model(); m.set_administration('central')
rows = []
# individual 1: doses at 0 (bolus, NaN duration) and 2 (duration 0.5); individual 'b': one dose at 1; individual 3: no dose
def meas(i, t, v, obs='conc'): rows.append({'ID': i, 'Time': t, 'Observable': obs, 'Value': v, 'Dose': np.nan, 'Duration': np.nan})
def dose(i, t, d, dur=np.nan): rows.append({'ID': i, 'Time': t, 'Observable': np.nan, 'Value': np.nan, 'Dose': d, 'Duration': dur})
dose(1, 0.0, 2.0); meas(1, 0.5, 0.8); meas(2, 1.5, 0.3); dose(2, 1.0, 4.0, 0.25); meas(1, 1.0, 0.6); meas(3, 0.5, 0.1); meas(1, 1.0, 55., 'weight')
dose(1, 2.0, 1.0, 0.5); meas(1, 3.0, 0.4); meas(2, 2.0, np.nan); meas(2, 2.5, 0.2); meas(3, 2.0, 0.05); meas(2, 1.0, 60., 'weight'); meas(3, 1.0, 70., 'weight')
df = pd.DataFrame(rows)
c = chi.ProblemModellingController(m, chi.GaussianErrorModel())
c.set_data(df, output_observable_dict={'central.drug_concentration': 'conc'})
print({k: [(e.level(), e.start(), e.duration()) for e in v.events()] for k, v in c.get_dosing_regimens().items()})
c.set_log_prior(pints.ComposedLogPrior(*[pints.UniformLogPrior(0, 5)]*4))
p = [0.0, 2.0, 0.3, 0.1]
for ind in ['1', '2', '3']:
    lp = c.get_log_posterior(individual=ind); ll = lp.get_log_likelihood()
    v = lp(p)
    sim = ll._mechanistic_model._simulator
    prot = [x for x in sim.calls if x[0] == 'set_protocol'][-1] if any(x[0]=='set_protocol' for x in sim.calls) else None
    print(ind, ll.n_observations(), list(ll._times), 'protocol used:', prot, 'value', v)
# hierarchical: all three at once
pop = chi.ComposedPopulationModel([chi.PooledModel(), chi.LogNormalModel(), chi.PooledModel(), chi.PooledModel()])
c.set_population_model(pop); c.set_log_prior(pints.ComposedLogPrior(*[pints.UniformLogPrior(0, 5)]*c.get_n_parameters()))
lp = c.get_log_posterior(); print(lp.get_parameter_names(include_ids=True))
x = np.array([2.0, 2.0, 2.0, 0.0, 0.7, 0.1, 0.3, 0.1]); print(lp(x))
for ll in lp.get_log_likelihood()._log_likelihoods:
    sim = ll._mechanistic_model._simulator
    prot = [x for x in sim.calls if x[0] == 'set_protocol']
    print(ll.get_id(), prot[-1] if prot else None)
