import numpy as np, chi, warnings, pints, toy, xarray as xr, pandas as pd
warnings.simplefilter('ignore')
res={}
def rec(w,k=None): res.setdefault(w,[]).append(k)
def vals(x):
    if isinstance(x,pd.DataFrame): return x['Value'].to_numpy(dtype=float)
    return np.asarray(x,dtype=float)
entries={}
for cls in [chi.GaussianErrorModel, chi.ConstantAndMultiplicativeGaussianErrorModel, chi.LogNormalErrorModel, chi.MultiplicativeGaussianErrorModel]:
    em=cls(); p=[0.5]*em.n_parameters()
    entries['em.'+cls.__name__]=lambda seed,em=em,p=p: em.sample(p,[1.,2.,3.],n_samples=4,seed=seed)
pops={'G':chi.GaussianModel(n_dim=2),'Gn':chi.GaussianModel(centered=False),'L':chi.LogNormalModel(),'T':chi.TruncatedGaussianModel(),'H':chi.HeterogeneousModel(n_ids=3),'P':chi.PooledModel(),
      'C':chi.ComposedPopulationModel([chi.GaussianModel(),chi.TruncatedGaussianModel(),chi.PooledModel(),chi.LogNormalModel()]),
      'Cov':chi.CovariatePopulationModel(chi.LogNormalModel(),chi.LinearCovariateModel())}
for k,pm in pops.items():
    p=np.linspace(0.6,1.2,pm.n_parameters())
    kw={'covariates':np.array([[1.0]])} if pm.n_covariates() else {}
    entries['pop.'+k]=lambda seed,pm=pm,p=p,kw=kw: pm.sample(p,n_samples=5,seed=seed,**kw)
pred=chi.PredictiveModel(toy.Toy(2),[chi.GaussianErrorModel(),chi.LogNormalErrorModel()])
entries['PredictiveModel']=lambda seed: pred.sample([1,0.5,0.3,0.2],[0.,1.,2.],n_samples=3,seed=seed)
ppm=chi.PopulationPredictiveModel(pred, chi.ComposedPopulationModel([chi.LogNormalModel(n_dim=2),chi.PooledModel(n_dim=2)]))
entries['PopulationPredictiveModel']=lambda seed: ppm.sample([0.,0.,0.2,0.2,0.3,0.2],[0.,1.,2.],n_samples=3,seed=seed)
prior=pints.ComposedLogPrior(*[pints.UniformLogPrior(0.1,1)]*4)
entries['PriorPredictiveModel']=lambda seed: chi.PriorPredictiveModel(pred,prior).sample([0.,1.],n_samples=3,seed=seed)
names=pred.get_parameter_names()
ds=xr.Dataset({n: xr.DataArray(np.random.default_rng(0).uniform(0.2,1,size=(2,5,1)), dims=['chain','draw','individual'], coords={'chain':[0,1],'draw':list(range(5)),'individual':['a']}) for n in names})
post=chi.PosteriorPredictiveModel(pred, ds)
entries['PosteriorPredictiveModel']=lambda seed: post.sample([0.,1.],n_samples=3,seed=seed)
entries['PAMPredictiveModel']=lambda seed: chi.PAMPredictiveModel([post,post],[0.3,0.7]).sample([0.,1.],n_samples=4,seed=seed)
ll=chi.LogLikelihood(toy.Toy(1),chi.GaussianErrorModel(),[1.,2.],[0.,1.])
lp=chi.LogPosterior(ll, pints.ComposedLogPrior(*[pints.UniformLogPrior(0.1,1)]*3))
entries['LogPosterior.sample_initial_parameters']=lambda seed: lp.sample_initial_parameters(n_samples=2,seed=seed)
for name,f in entries.items():
    try:
        np.random.seed(11); a=vals(f(5)); np.random.seed(99); np.random.uniform(size=7); b=vals(f(5)); c=vals(f(6))
        if not np.array_equal(a,b): rec('same int seed, different global state -> different result',name)
        if np.array_equal(a,c): rec('different seeds -> identical draws',name)
        st=np.random.get_state()[1][:5].copy(); np.random.seed(123); s0=np.random.get_state()[1].copy(); f(5); s1=np.random.get_state()[1]
        if not np.array_equal(s0,s1): rec('call with int seed modifies the global generator',name)
        if name.startswith('em.') or name.startswith('pop.'):
            g=np.random.default_rng(5); x=vals(f(g)); y=vals(f(g))
            if np.array_equal(x,y): rec('generator argument restarted (not advanced)',name)
    except Exception as e: rec('ERR '+type(e).__name__+str(e)[:60],name)
# independence across outputs / times within a call (same model params so noise comparable)
pred2=chi.PredictiveModel(toy.Toy(2),[chi.GaussianErrorModel(),chi.GaussianErrorModel()])
s=pred2.sample([1,0.5,1,1],[0,1,2],n_samples=50,seed=3,return_df=False)
mean=pred2.sample([1,0.5,1e-12,1e-12],[0,1,2],n_samples=1,seed=3,return_df=False)
r=np.corrcoef((s[0]-mean[0]).ravel(),(s[1]-mean[1]).ravel())[0,1]; print('corr between outputs noise', r)
for w,k in sorted(res.items(), key=lambda kv:-len(kv[1])): print(len(k), w, '|', k)
