import myokit, numpy as np
class StubSim:
    """records calls; returns zeros"""
    n_created = 0
    def __init__(self, model, protocol=None, sensitivities=None):
        StubSim.n_created += 1
        self._model = model.clone(); self._protocol = protocol; self._sens = sensitivities
        self.calls = []
    def reset(self): self.calls.append(('reset',))
    def set_state(self, s): self.calls.append(('set_state', list(map(float, s))))
    def set_constant(self, n, v): self.calls.append(('set_constant', n, v))
    def set_protocol(self, p): self._protocol = p; self.calls.append(('set_protocol', None if p is None else p.code()))
    def run(self, duration, log=None, log_times=None):
        self.calls.append(('run', duration, list(log), list(log_times)))
        d = {n: np.zeros(len(log_times)) for n in log}
        if self._sens is None: return d
        return d, np.zeros((len(log_times), len(self._sens[0]), len(self._sens[1])))
myokit.Simulation = StubSim
