From Coq Require Import Reals Lra List.
From Coquelicot Require Import Coquelicot.
From Interval Require Import Tactic.
Open Scope R_scope.
Definition gauss_ll (m y s : R) : R :=
  - (ln (2 * PI) / 2 + ln s) - (m - y)^2 / s^2 / 2.
Goal Rabs (gauss_ll (3/2) (9/4) (5/8) - (-1.1689349039589372)) <= 1/1000000000000.
Proof. unfold gauss_ll. interval with (i_prec 80). Qed.
Definition erf (x:R) := 2 / sqrt PI * RInt (fun t => exp (- t^2)) 0 x.
Goal Rabs (erf (1/2) - 0.5204998778130465) <= 1/10000000000.
Proof. unfold erf. integral with (i_prec 80, i_fuel 1000). Qed.
Goal Rabs (ln (1 - (1 + erf (-(3/2)/ sqrt 2)) / 2)  - (-0.06914345561223398)) <= 1/1000000000.
Proof. unfold erf. integral with (i_prec 80, i_fuel 1000). Qed.
