From Coq Require Import Reals Lra ssreflect.
From Coquelicot Require Import Coquelicot.
Open Scope R_scope.
Definition phi (u : R) := / sqrt (2*PI) * exp (- u^2 / 2).
Definition G_pw (s m y : R) := - (ln (2 * PI) / 2 + ln s) - (m - y)^2 / s^2 / 2.

Lemma exp_half_ln x : 0 < x -> exp (ln x / 2) = sqrt x.
Proof.
  intros Hx. symmetry. apply sqrt_lem_1; try lra. left; apply exp_pos.
  rewrite -exp_plus. replace (ln x / 2 + ln x / 2) with (ln x) by field. now apply exp_ln.
Qed.
Lemma sqrt2pi_pos : 0 < sqrt (2*PI).
Proof. apply sqrt_lt_R0. generalize PI_RGT_0. lra. Qed.

Lemma G_density s m y : 0 < s -> exp (G_pw s m y) = / s * phi ((y - m) / s).
Proof.
  intros Hs. unfold G_pw, phi.
  replace (- (ln (2 * PI) / 2 + ln s) - (m - y) ^ 2 / s ^ 2 / 2)
    with (- (ln (2*PI) / 2) + (- ln s + - ((y - m) / s)^2 / 2)) by (field; lra).
  rewrite !exp_plus !exp_Ropp exp_half_ln; last by (generalize PI_RGT_0; lra).
  rewrite exp_ln //.
  field. Show. split; [ apply Rgt_not_eq, sqrt2pi_pos | lra ].
Qed.

Lemma ex_RInt_phi a b : ex_RInt phi a b.
Proof.
  apply: ex_RInt_continuous => x _. unfold phi.
  apply: ex_derive_continuous. auto_derive. auto.
Qed.

Lemma G_interval_mass s m a b : 0 < s ->
  is_RInt (fun y => exp (G_pw s m y)) a b (RInt phi ((a - m)/s) ((b - m)/s)).
Proof.
  intros Hs.
  apply is_RInt_ext with (fun y => scal (/ s) (phi (/ s * y + (- m / s)))).
  - intros x _. rewrite G_density //. rewrite /scal /= /mult /=.
    f_equal. f_equal. field. lra.
  - apply: is_RInt_comp_lin.
    replace (/ s * a + - m / s) with ((a - m)/s) by (field; lra).
    replace (/ s * b + - m / s) with ((b - m)/s) by (field; lra).
    apply: RInt_correct. apply ex_RInt_phi.
Qed.
Print Assumptions G_interval_mass.
