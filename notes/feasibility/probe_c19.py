import simsub; simsub.install()
import numpy as np, chi, itertools, warnings, pints, copy
warnings.simplefilter('ignore')
from chi.library import ModelLibrary
L = ModelLibrary()
def build(fixed=False, sens_on_user_model=False):
    m = L.one_compartment_pk_model(); m.set_administration('central', direct=False); m.set_dosing_regimen(dose=2.0, start=0.5, duration=0.25, period=1.0, num=2)
    if sens_on_user_model: m.enable_sensitivities(True)
    ll = chi.LogLikelihood(m, chi.ConstantAndMultiplicativeGaussianErrorModel(), [0.1, 0.5, 0.9, 0.7], [0.25, 0.75, 1.5, 3.0])
    if fixed: ll.fix_parameters({'central.size': 2.0, 'Sigma rel.': 0.1})
    return m, ll
def ops_for(ll):
    n = ll.n_parameters(); p1 = np.linspace(0.5, 1.5, n); p2 = np.linspace(1.2, 0.4, n)
    return {
      'c1': lambda: float(ll(p1)), 'c2': lambda: float(ll(p2)),
      's1': lambda: (lambda r: (float(r[0]), np.round(r[1], 5).tolist()))(ll.evaluateS1(p1)),
      's2': lambda: (lambda r: (float(r[0]), np.round(r[1], 5).tolist()))(ll.evaluateS1(p2)),
      'w1': lambda: np.round(ll.compute_pointwise_ll(p1), 9).tolist(),
    }
for fixed in (False, True):
  for sens_user in (False, True):
    # reference: each op on a fresh object
    ref = {}
    for name in ['c1','c2','s1','s2','w1']:
        _, ll = build(fixed, sens_user)
        try: ref[name] = ops_for(ll)[name]()
        except Exception as e: ref[name] = 'ERR ' + type(e).__name__ + str(e)[:50]
    bad = []
    for k in (2, 3):
        for seq in itertools.product(['c1','c2','s1','s2','w1'], repeat=k):
            _, ll = build(fixed, sens_user); ops = ops_for(ll)
            for i, name in enumerate(seq):
                try: r = ops[name]()
                except Exception as e: r = 'ERR ' + type(e).__name__ + str(e)[:50]
                if r != ref[name]:
                    bad.append((seq, i)); break
    print('fixed', fixed, 'sens_on_user_model', sens_user, 'ref errors', {k: v for k, v in ref.items() if isinstance(v, str)}, 'history-dependent results', len(bad), bad[:5])
# mutation of inputs
_, ll = build()
p = np.linspace(0.5, 1.5, ll.n_parameters()); q = p.copy(); ll(p); ll.evaluateS1(p); print('input mutated', not np.array_equal(p, q))
# later changes to user model do not affect likelihood
m, ll = build(); v0 = ll(p); m.set_dosing_regimen(dose=100.0, start=0.0, duration=0.1); m.set_outputs(['central.drug_amount']); print('isolated from user model', ll(p) == v0)
