(* Prototype of the Layout descriptor model and the C17 length agreement for hierarchical likelihoods *)
From Coq Require Import List Arith Lia Bool.
Import ListNotations.

Inductive kind := KGauss | KLogNormal | KTrunc | KPooled | KHetero.
Record sub := { sk : kind; sdim : nat; scov : option (nat * list (nat * nat)) (* n_cov, normalised selection *) }.

Definition special (k : kind) : bool := match k with KPooled | KHetero => true | _ => false end.
Definition n_base (n_ids : nat) (s : sub) : nat :=
  match sk s with KPooled => sdim s | KHetero => n_ids * sdim s | _ => 2 * sdim s end.
Definition n_covp (s : sub) : nat := match scov s with Some (nc, sel) => length sel * nc | None => 0 end.
Definition n_par (n_ids : nat) (s : sub) : nat := n_base n_ids s + n_covp s.
Definition n_hdim (s : sub) : nat := if special (sk s) then 0 else sdim s.

Definition comp := list sub.
Definition sum_of {A} (f : A -> nat) (l : list A) : nat := fold_right (fun a acc => f a + acc) 0 l.
Definition N_dim (c : comp) := sum_of sdim c.
Definition N_top (n_ids : nat) (c : comp) := sum_of (n_par n_ids) c.
Definition N_hdim (c : comp) := sum_of n_hdim c.
Definition N_bottom (n_ids : nat) (c : comp) := n_ids * N_hdim c.
Definition N_parameters (n_ids : nat) (c : comp) := N_bottom n_ids c + N_top n_ids c.

(* names, with an abstract name type built by the given constructors *)
Section Names.
Variable N : Type.
Variables (nm_param : nat -> kind -> nat -> nat -> N)     (* sub index, kind, parameter row, dimension *)
          (nm_cov : nat -> nat -> nat -> nat -> N)         (* sub index, row, dimension, covariate *)
          (nm_dim : nat -> N)                               (* likelihood parameter name of global dimension *)
          (nm_id : nat -> N -> N).                          (* prefix with individual id *)

Definition rows (n_ids : nat) (s : sub) : nat := match sk s with KPooled => 1 | KHetero => n_ids | _ => 2 end.
Definition names_base (n_ids i : nat) (s : sub) : list N :=
  flat_map (fun p => map (fun d => nm_param i (sk s) p d) (seq 0 (sdim s))) (seq 0 (rows n_ids s)).
Definition names_cov (i : nat) (s : sub) : list N :=
  match scov s with
  | Some (nc, sel) => flat_map (fun pd => map (fun c => nm_cov i (fst pd) (snd pd) c) (seq 0 nc)) sel
  | None => []
  end.
Definition names_sub (n_ids i : nat) (s : sub) : list N := names_base n_ids i s ++ names_cov i s.

Fixpoint names_top (n_ids i : nat) (c : comp) : list N :=
  match c with [] => [] | s :: t => names_sub n_ids i s ++ names_top n_ids (S i) t end.

(* bottom names of one individual: likelihood names of the non-special dimensions, in order *)
Fixpoint names_bottom1 (start : nat) (c : comp) : list N :=
  match c with
  | [] => []
  | s :: t => (if special (sk s) then [] else map nm_dim (seq start (sdim s))) ++ names_bottom1 (start + sdim s) t
  end.

Definition names (n_ids : nat) (c : comp) : list N :=
  flat_map (fun i => map (nm_id i) (names_bottom1 0 c)) (seq 0 n_ids) ++ names_top n_ids 0 c.
Definition ids (n_ids : nat) (c : comp) : list (option nat) :=
  flat_map (fun i => repeat (Some i) (N_hdim c)) (seq 0 n_ids) ++ repeat None (N_top n_ids c).

Lemma length_flat_map_const {A B} (f : A -> list B) (l : list A) k :
  (forall a, length (f a) = k) -> length (flat_map f l) = length l * k.
Proof. intros H. induction l as [|a l IH]; cbn [flat_map length]; [reflexivity|]. rewrite app_length, H, IH. lia. Qed.

Lemma length_names_base n_ids i s : length (names_base n_ids i s) = n_base n_ids s.
Proof.
  unfold names_base. rewrite (length_flat_map_const _ _ (sdim s)); [|intros; now rewrite map_length, seq_length].
  rewrite seq_length. unfold rows, n_base. destruct (sk s); lia.
Qed.
Lemma length_names_cov i s : length (names_cov i s) = n_covp s.
Proof.
  unfold names_cov, n_covp. destruct (scov s) as [[nc sel]|]; [|reflexivity].
  apply length_flat_map_const. intros; now rewrite map_length, seq_length.
Qed.
Lemma length_names_top n_ids c : forall i, length (names_top n_ids i c) = N_top n_ids c.
Proof.
  induction c as [|s c IH]; intros i; cbn [names_top]; [reflexivity|].
  unfold names_sub. rewrite !app_length, length_names_base, length_names_cov, IH. reflexivity.
Qed.
Lemma length_names_bottom1 c : forall start, length (names_bottom1 start c) = N_hdim c.
Proof.
  induction c as [|s c IH]; intros start; cbn [names_bottom1]; [reflexivity|].
  rewrite app_length, IH. unfold N_hdim at 2. cbn [sum_of fold_right]. unfold n_hdim at 1.
  destruct (special (sk s)); cbn [length]; [reflexivity|]. now rewrite map_length, seq_length.
Qed.

Theorem C17_lengths n_ids c :
  length (names n_ids c) = N_parameters n_ids c /\ length (ids n_ids c) = N_parameters n_ids c.
Proof.
  unfold names, ids, N_parameters, N_bottom. rewrite !app_length, length_names_top, repeat_length. split.
  - rewrite (length_flat_map_const _ _ (N_hdim c)); [|intros; now rewrite map_length, length_names_bottom1]. now rewrite seq_length.
  - rewrite (length_flat_map_const _ _ (N_hdim c)); [|intros; apply repeat_length]. now rewrite seq_length.
Qed.

(* ids mark exactly the bottom block *)
Theorem C17_ids_mark_bottom n_ids c k :
  k < N_parameters n_ids c -> (nth k (ids n_ids c) None <> None <-> k < N_bottom n_ids c).
Proof.
  intros Hk. unfold ids.
  assert (L : length (flat_map (fun i => repeat (Some i) (N_hdim c)) (seq 0 n_ids)) = N_bottom n_ids c).
  { rewrite (length_flat_map_const _ _ (N_hdim c)); [|intros; apply repeat_length]. now rewrite seq_length. }
  destruct (Nat.lt_ge_cases k (N_bottom n_ids c)) as [H|H].
  - rewrite app_nth1 by lia. split; [auto|]. intros _.
    assert (F : Forall (fun o => o <> None) (flat_map (fun i => repeat (Some i) (N_hdim c)) (seq 0 n_ids))).
    { apply Forall_flat_map. apply Forall_forall. intros i _. apply Forall_forall. intros o Ho. apply repeat_spec in Ho. now subst. }
    rewrite Forall_forall in F. apply F. apply nth_In. lia.
  - rewrite app_nth2 by lia. rewrite nth_repeat. split; [congruence | lia].
Qed.
End Names.
Print Assumptions C17_lengths.
Print Assumptions C17_ids_mark_bottom.
