import numpy as np, chi, warnings, itertools, pints
warnings.simplefilter('ignore')
from scipy import stats
rng=np.random.default_rng(1)
def ref(kind, obs, sim, n_kernels=2):
    m=~np.isnan(obs)
    if kind in ('LogNormalFilter','LogNormalKDEFilter'): ls=np.log(sim)
    if kind=='GaussianFilter': lp=stats.norm.logpdf(obs, loc=sim.mean(0), scale=sim.std(0,ddof=1))
    elif kind=='LogNormalFilter': lp=stats.lognorm.logpdf(obs, s=ls.std(0,ddof=1), scale=np.exp(ls.mean(0)))
    elif kind=='GaussianKDEFilter':
        n=len(sim); bw=(4/3/n)**0.2*sim.std(0,ddof=1); lp=np.log(stats.norm.pdf(obs[None], loc=sim[:,None], scale=bw).mean(0))
    elif kind=='LogNormalKDEFilter':
        n=len(sim); bw=(4/3/n)**0.2*ls.std(0,ddof=1); lp=np.log(stats.lognorm.pdf(obs[None], s=bw, scale=sim[:,None]).mean(0))
    elif kind=='GaussianMixtureFilter':
        s=sim.reshape(n_kernels,-1,*sim.shape[1:]); lp=np.log(stats.norm.pdf(obs[None], loc=s.mean(1)[:,None], scale=s.std(1,ddof=1)[:,None]).mean(0))
    return np.nansum(np.where(m, lp, np.nan))
res={}
for kind in ['GaussianFilter','LogNormalFilter','GaussianKDEFilter','LogNormalKDEFilter','GaussianMixtureFilter']:
    for trial in range(30):
        n_ids, n_obs, n_t = rng.integers(1,4), rng.integers(1,3), rng.integers(1,4)
        n_sim = int(rng.choice([4,6]))
        obs=np.exp(rng.normal(size=(n_ids,n_obs,n_t))); sim=np.exp(rng.normal(size=(n_sim,n_obs,n_t)))
        if trial%2:
            mask=rng.uniform(size=obs.shape)<0.3
            for r in range(n_obs):
                for j in range(n_t):
                    if mask[:,r,j].all(): mask[0,r,j]=False
            obs=np.where(mask, np.nan, obs)
        f=getattr(chi,kind)(obs)
        try:
            v=f.compute_log_likelihood(sim); s,g=f.compute_sensitivities(sim)
        except Exception as e:
            res.setdefault((kind,'ERR '+type(e).__name__+str(e)[:50]),0); res[(kind,'ERR '+type(e).__name__+str(e)[:50])]+=1; continue
        r=ref(kind,obs,sim)
        if abs(v-r)>1e-8*(1+abs(r)): res[(kind,'value != documented density'+(' (missing data)' if trial%2 else ''))]=res.get((kind,'value != documented density'+(' (missing data)' if trial%2 else '')),0)+1
        if abs(s-v)>1e-9*(1+abs(v)): res[(kind,'S1 score differs')]=res.get((kind,'S1 score differs'),0)+1
        if np.shape(g)!=sim.shape: res[(kind,'grad shape')]=res.get((kind,'grad shape'),0)+1; continue
        eps=1e-5; num=np.zeros(sim.shape)
        for idx in np.ndindex(sim.shape):
            d=np.zeros(sim.shape); d[idx]=eps
            num[idx]=(f.compute_log_likelihood(sim+d)-f.compute_log_likelihood(sim-d))/2/eps
        err=np.abs(np.asarray(g)-num)/(1+np.abs(num))
        if err.max()>1e-5: res[(kind,'gradient wrong'+(' (missing data)' if trial%2 else ''))]=res.get((kind,'gradient wrong'+(' (missing data)' if trial%2 else '')),0)+1
        # padding invariance
        pad=np.concatenate([obs, np.full((2,)+obs.shape[1:], np.nan)]); v2=getattr(chi,kind)(pad).compute_log_likelihood(sim)
        if abs(v2-v)>1e-9*(1+abs(v)): res[(kind,'padding changes value')]=res.get((kind,'padding changes value'),0)+1
        # permutation of measured individuals
        v3=getattr(chi,kind)(obs[::-1]).compute_log_likelihood(sim)
        if abs(v3-v)>1e-9*(1+abs(v)): res[(kind,'permutation changes value')]=res.get((kind,'permutation changes value'),0)+1
for k,v in sorted(res.items()): print(k, v)
