(* Prototype: Gaussian KDE filter, one cell, one measured value x, derivative w.r.t. one simulated value t = y_s.
   others = the other simulated values; h2 = squared bandwidth as an abstract differentiable positive function of t. *)
From Coq Require Import Reals Lra List ssreflect.
From Coquelicot Require Import Coquelicot.
Import ListNotations.
Open Scope R_scope.

Fixpoint Rsum (l : list R) : R := match l with [] => 0 | x :: t => x + Rsum t end.
Lemma is_derive_Rsum {A} (l : list A) (f : A -> R -> R) (d : A -> R) x :
  (forall a, In a l -> is_derive (f a) x (d a)) ->
  is_derive (fun t => Rsum (map (fun a => f a t) l)) x (Rsum (map d l)).
Proof.
  induction l as [|a l IH]; intros H; simpl.
  - apply @is_derive_const.
  - apply @is_derive_plus; [apply H; now left | apply IH; intros b Hb; apply H; now right].
Qed.
Lemma Rsum_pos l : (forall a, In a l -> 0 < a) -> 0 <= Rsum l.
Proof. induction l as [|a l IH]; simpl; intros H; [lra|]. assert (0 < a) by (apply H; now left). assert (0 <= Rsum l) by (apply IH; intros; apply H; now right). lra. Qed.

Section Cell.
Variables (h2 : R -> R) (dh2 : R) (t x : R) (others : list R).
Hypothesis Hh2 : is_derive h2 t dh2.
Hypothesis Hpos : 0 < h2 t.

Definition sc (y hh : R) := - (y - x)^2 / hh / 2.          (* "scores" entry *)
Definition e_other (y : R) (u : R) := exp (sc y (h2 u)).
Definition e_own (u : R) := exp (sc u (h2 u)).
Definition Z (u : R) := Rsum (map (fun y => e_other y u) others) + e_own u.
Definition lse (u : R) := ln (Z u).

Lemma d_e_other y : is_derive (e_other y) t (e_other y t * (- sc y (h2 t) * dh2 / h2 t)).
Proof.
  unfold e_other, sc. auto_derive.
  - split; [eexists; exact Hh2 | repeat split; lra].
  - replace (Derive (fun x0 : R => h2 x0) t) with dh2 by (symmetry; apply is_derive_unique; exact Hh2).
    set (E := exp _). field. lra.
Qed.

Lemma d_e_own : is_derive e_own t (e_own t * ((x - t) / h2 t - sc t (h2 t) * dh2 / h2 t)).
Proof.
  unfold e_own, sc. auto_derive.
  - split; [eexists; exact Hh2 | repeat split; lra].
  - replace (Derive (fun x0 : R => h2 x0) t) with dh2 by (symmetry; apply is_derive_unique; exact Hh2).
    set (E := exp _). field. lra.
Qed.

Lemma Z_pos : 0 < Z t.
Proof.
  unfold Z. assert (0 <= Rsum (map (fun y => e_other y t) others)).
  { apply Rsum_pos. intros a Ha. apply in_map_iff in Ha. destruct Ha as (y & <- & _). apply exp_pos. }
  assert (0 < e_own t) by apply exp_pos. lra.
Qed.

Definition dZ : R :=
  Rsum (map (fun y => e_other y t * (- sc y (h2 t) * dh2 / h2 t)) others)
  + e_own t * ((x - t) / h2 t - sc t (h2 t) * dh2 / h2 t).

Lemma d_Z : is_derive Z t dZ.
Proof.
  unfold Z, dZ. apply: is_derive_plus.
  - apply (is_derive_Rsum others (fun y u => e_other y u)). intros y _. apply d_e_other.
  - apply d_e_own.
Qed.

Theorem d_lse : is_derive lse t (dZ / Z t).
Proof.
  unfold lse. evar_last.
  - apply: is_derive_comp; [ | apply d_Z].
    apply is_derive_Reals. apply derivable_pt_lim_ln. apply Z_pos.
  - rewrite /scal /= /mult /=. field. apply Rgt_not_eq, Z_pos.
Qed.
End Cell.
Check d_lse.
Print Assumptions d_lse.
