"""Mini prototype of the exact correspondence route for C01 (pairing of predictions and observations)."""
import numpy as np, chi, warnings, subprocess, time, json, sys
warnings.simplefilter('ignore')
SCALE = 4   # times are k/4

class ToyK(chi.MechanisticModel):
    """output o at time t is the exactly representable code 1000*(o+1) + 4 t"""
    def __init__(self, k): super().__init__(); self._out = ['y%d' % i for i in range(k)]; self._s = False
    def enable_sensitivities(self, enabled, parameter_names=None): self._s = bool(enabled)
    def has_sensitivities(self): return self._s
    def n_outputs(self): return len(self._out)
    def n_parameters(self): return 1
    def outputs(self): return list(self._out)
    def parameters(self): return ['a']
    def set_outputs(self, o): self._out = list(o)
    def simulate(self, parameters, times):
        t = np.asarray(times, float)
        return np.array([1000.0 * (int(n[1:]) + 1) + SCALE * t for n in self._out])

LOG = []
class RecordingErrorModel(chi.ErrorModel):
    def __init__(self, tag): super().__init__(); self._tag = tag; self._parameter_names = ['Sigma']; self._n_parameters = 1
    def set_parameter_names(self, names=None): self._parameter_names = ['Sigma'] if names is None else [str(n) for n in names]
    def compute_log_likelihood(self, parameters, model_output, observations):
        if len(model_output) != len(observations):
            raise ValueError('The number of model outputs must match the number of observations')
        LOG.append((self._tag, [int(x) for x in model_output], [int(x) for x in observations])); return 0.0

rng = np.random.default_rng(int(sys.argv[1]) if len(sys.argv) > 1 else 0)
cases = []
for _ in range(400):
    k = int(rng.integers(1, 4)); grids = []
    for o in range(k):
        n = int(rng.integers(1, 5))
        g = np.sort(rng.choice(np.arange(8), size=n, replace=bool(rng.integers(0, 4) == 0)))   # sometimes ties
        grids.append([int(x) for x in g])
    obs = [[int(x) for x in rng.integers(1, 100, size=len(g))] for g in grids]
    cases.append((grids, obs))

t0 = time.time(); impl = []
for grids, obs in cases:
    k = len(grids); LOG.clear()
    try:
        ll = chi.LogLikelihood(ToyK(k), [RecordingErrorModel(o) for o in range(k)],
                               [np.array(o, float) for o in obs] if k > 1 else np.array(obs[0], float),
                               [np.array(g, float) / SCALE for g in grids] if k > 1 else np.array(grids[0], float) / SCALE)
        ll(np.ones(ll.n_parameters()))
        impl.append('OK ' + ';'.join('%d:%s' % (tag, ','.join('%d/%d' % (m, y) for m, y in zip(mo, ob))) for tag, mo, ob in sorted(LOG)))
    except Exception as e:
        impl.append('RAISE ' + type(e).__name__)
t_impl = time.time() - t0

def coq_list(l, f=str): return '[' + '; '.join(f(x) for x in l) + ']'
with open('cases.v', 'w') as f:
    f.write('Require Import TimeGrid. From Coq Require Import List ZArith. Import ListNotations. Open Scope Z_scope.\n')
    f.write('''Definition run1 (ts obs : list (list Z)) : list (list (Z * Z)) :=
  map (fun o => combine (select (mask (union ts) (nth o ts [])) (map (fun t => Z.of_nat o * 1000 + 1000 + t) (union ts))) (nth o obs [])) (seq 0 (length ts)).
Definition ok (ts obs : list (list Z)) : bool :=
  forallb (fun o => Nat.eqb (length (select (mask (union ts) (nth o ts [])) (union ts))) (length (nth o obs []))) (seq 0 (length ts)).
Definition cases : list (list (list Z) * list (list Z)) := [\n''')
    f.write(';\n'.join('(%s, %s)' % (coq_list(g, lambda x: coq_list(x)), coq_list(o, lambda x: coq_list(x))) for g, o in cases))
    f.write('].\nEval vm_compute in map (fun c => (ok (fst c) (snd c), run1 (fst c) (snd c))) cases.\n')
t0 = time.time()
subprocess.run(['coqc', '-Q', '.', '', 'TimeGrid.v'], check=True, capture_output=True)
out = subprocess.run(['coqc', '-Q', '.', '', 'cases.v'], check=True, capture_output=True, text=True).stdout
t_coq = time.time() - t0
# parse: the printed term is a list of (bool, list (list (Z*Z)))
txt = out[out.index('='):]; txt = txt[:txt.rindex(':')]
txt = txt.replace('\n', ' ').replace(';', ',').replace('true', 'True').replace('false', 'False').replace('=', '', 1)
model = eval(txt)
mism = 0
for (okb, pairs), im, (grids, obs) in zip(model, impl, cases):
    mo = ('OK ' + ';'.join('%d:%s' % (o, ','.join('%d/%d' % (m, y) for m, y in p)) for o, p in enumerate(pairs))) if okb else 'RAISE ValueError'
    if mo != im:
        mism += 1
        if mism <= 3: print('MISMATCH', grids, obs, '\n model', mo, '\n impl ', im)
print('cases', len(cases), 'mismatches', mism, 'raise cases', sum(1 for x in impl if x.startswith('RAISE')), 'impl %.2fs coq %.2fs' % (t_impl, t_coq))
