(* Prototype: C01 pairing theorem. Times are integers (scaled dyadics). *)
From Coq Require Import List ZArith Lia Bool Sorted.
Import ListNotations.
Open Scope Z_scope.

Fixpoint insert_uniq (x : Z) (l : list Z) : list Z :=
  match l with
  | [] => [x]
  | y :: t => if x <? y then x :: l else if x =? y then l else y :: insert_uniq x t
  end.
Definition union (ts : list (list Z)) : list Z := fold_right insert_uniq [] (concat ts).
Definition mem (x : Z) (l : list Z) : bool := existsb (Z.eqb x) l.
Definition mask (u ts : list Z) : list bool := map (fun x => mem x ts) u.
Fixpoint select {V} (m : list bool) (v : list V) : list V :=
  match m, v with
  | b :: m', x :: v' => if b then x :: select m' v' else select m' v'
  | _, _ => []
  end.

(* strictly increasing *)
Definition sinc := StronglySorted Z.lt.

Lemma mem_In x l : mem x l = true <-> In x l.
Proof. unfold mem. rewrite existsb_exists. split; [intros (y & Hy & E); apply Z.eqb_eq in E; now subst | intros H; exists x; split; [assumption | apply Z.eqb_refl]]. Qed.

Lemma insert_uniq_In x y l : In y (insert_uniq x l) <-> y = x \/ In y l.
Proof.
  induction l as [|z l IH]; cbn [insert_uniq In]; [intuition|].
  destruct (Z.ltb_spec x z); [cbn [In]; intuition|]. destruct (Z.eqb_spec x z); [subst; cbn [In]; intuition|]. cbn [In]. rewrite IH. intuition.
Qed.

Lemma insert_uniq_sinc x l : sinc l -> sinc (insert_uniq x l).
Proof.
  unfold sinc. induction l as [|z l IH]; cbn [insert_uniq]; intros H.
  - constructor; constructor.
  - destruct (Z.ltb_spec x z).
    + constructor; [assumption|]. constructor; [assumption|]. inversion H; subst.
      eapply Forall_impl; [|eassumption]. intros; cbn in *; lia.
    + destruct (Z.eqb_spec x z); [assumption|]. inversion H as [|? ? Hs Hf]; subst.
      constructor; [now apply IH|]. apply Forall_forall. intros y Hy. apply insert_uniq_In in Hy.
      destruct Hy as [->|Hy]; [lia|]. rewrite Forall_forall in Hf. now apply Hf.
Qed.

Lemma union_sinc ts : sinc (union ts).
Proof. unfold union. induction (concat ts) as [|x l IH]; cbn [fold_right]; [constructor | now apply insert_uniq_sinc]. Qed.

Lemma union_In ts y : In y (union ts) <-> In y (concat ts).
Proof. unfold union. induction (concat ts) as [|x l IH]; cbn [fold_right In]; [tauto|]. rewrite insert_uniq_In, IH. intuition. Qed.

(* two strictly increasing lists with the same elements are equal *)
Lemma sinc_ext l1 l2 : sinc l1 -> sinc l2 -> (forall x, In x l1 <-> In x l2) -> l1 = l2.
Proof.
  unfold sinc. revert l2. induction l1 as [|a l1 IH]; intros [|b l2] H1 H2 E.
  - reflexivity.
  - exfalso. apply (E b). now left.
  - exfalso. apply (E a). now left.
  - inversion H1 as [|? ? S1 F1]; inversion H2 as [|? ? S2 F2]; subst.
    rewrite Forall_forall in F1, F2.
    assert (a = b).
    { destruct (proj1 (E a) (or_introl eq_refl)) as [->|Ha]; [reflexivity|].
      destruct (proj2 (E b) (or_introl eq_refl)) as [->|Hb]; [reflexivity|].
      specialize (F1 _ Hb). specialize (F2 _ Ha). lia. }
    subst b. f_equal. apply IH; try assumption.
    intros x. split; intros Hx.
    + destruct (proj1 (E x) (or_intror Hx)) as [<-|]; [|assumption]. specialize (F1 _ Hx). lia.
    + destruct (proj2 (E x) (or_intror Hx)) as [<-|]; [|assumption]. specialize (F2 _ Hx). lia.
Qed.

Lemma select_mask_map {V} (f : Z -> V) (p : Z -> bool) (u : list Z) :
  select (map p u) (map f u) = map f (filter p u).
Proof. induction u as [|x u IH]; cbn [map select filter]; [reflexivity|]. destruct (p x); cbn [map]; now rewrite IH. Qed.

Lemma filter_sinc p l : sinc l -> sinc (filter p l).
Proof.
  unfold sinc. induction l as [|x l IH]; cbn [filter]; intros H; [constructor|].
  inversion H as [|? ? Hs Hf]; subst. destruct (p x); [|now apply IH].
  constructor; [now apply IH|]. rewrite Forall_forall in *. intros y Hy. apply filter_In in Hy. now apply Hf.
Qed.

(* The pairing theorem: whatever the other outputs' grids are, the values selected for output o are the
   predictions at output o's own times, in order. *)
Theorem C01_select {V} (pred : Z -> V) (ts : list (list Z)) (t_o : list Z) :
  In t_o ts -> sinc t_o ->
  select (mask (union ts) t_o) (map pred (union ts)) = map pred t_o.
Proof.
  intros Hin Hs. unfold mask. rewrite select_mask_map. f_equal.
  apply sinc_ext; [apply filter_sinc, union_sinc | assumption |].
  intros x. rewrite filter_In, mem_In, union_In. split; [tauto|]. intros Hx. split; [|assumption].
  apply in_concat. exists t_o. tauto.
Qed.

(* the current code on tied times: accepted by the constructor's check (non-decreasing), but the selection is too short *)
Example C01_ties_refuted :
  let ts := [[0; 2; 2; 4]] in
  length (select (mask (union ts) [0;2;2;4]) (map (fun t => t) (union ts))) = 3%nat.
Proof. reflexivity. Qed.
