(* Prototype: log-normal error model is the push-forward of a standard normal under y = m * exp(-s^2/2 + s z) *)
From Coq Require Import Reals Lra ssreflect.
From Coquelicot Require Import Coquelicot.
Open Scope R_scope.
Definition phi (u : R) := / sqrt (2*PI) * exp (- u^2 / 2).
Definition LN_pw (s m y : R) :=
  - (ln (2*PI)/2 + ln s) - ln y - (ln m - s^2/2 - ln y)^2 / s^2 / 2.

Lemma exp_half_ln x : 0 < x -> exp (ln x / 2) = sqrt x.
Proof.
  intros Hx. symmetry. apply sqrt_lem_1; try lra. left; apply exp_pos.
  rewrite -exp_plus. replace (ln x / 2 + ln x / 2) with (ln x) by field. now apply exp_ln.
Qed.
Lemma sqrt2pi_pos : 0 < sqrt (2*PI).
Proof. apply sqrt_lt_R0. generalize PI_RGT_0. lra. Qed.

Definition g (s m y : R) := (ln y - ln m + s^2/2) / s.

Lemma LN_density s m y : 0 < s -> 0 < m -> 0 < y ->
  exp (LN_pw s m y) = / (s * y) * phi (g s m y).
Proof.
  intros Hs Hm Hy. unfold LN_pw, phi, g.
  replace (- (ln (2 * PI) / 2 + ln s) - ln y - (ln m - s ^ 2 / 2 - ln y) ^ 2 / s ^ 2 / 2)
    with (- (ln (2*PI) / 2) + (- ln s + (- ln y + - ((ln y - ln m + s^2/2) / s)^2 / 2))) by (field; lra).
  rewrite !exp_plus !exp_Ropp exp_half_ln; last by (generalize PI_RGT_0; lra).
  rewrite !exp_ln //.
  field. repeat split; try lra. apply Rgt_not_eq, sqrt2pi_pos.
Qed.

Lemma cont_phi x : continuous phi x.
Proof. unfold phi. apply: ex_derive_continuous. auto_derive. auto. Qed.

(* mass of every interval 0 < a < b *)
Lemma LN_interval_mass s m a b : 0 < s -> 0 < m -> 0 < a -> a < b ->
  is_RInt (fun y => exp (LN_pw s m y)) a b (RInt phi (g s m a) (g s m b)).
Proof.
  intros Hs Hm Ha Hab.
  apply is_RInt_ext with (fun y => scal (/ (s * y)) (phi (g s m y))).
  - intros x [Hx _]. rewrite Rmin_left in Hx; try lra. rewrite LN_density //; try lra.
  - apply: (is_RInt_comp phi (g s m) (fun y => / (s * y))).
    + intros x _. apply cont_phi.
    + intros x [Hx _]. rewrite Rmin_left in Hx; try lra. split.
      * unfold g. auto_derive. lra. field. lra.
      * apply: ex_derive_continuous. auto_derive. nra.
Qed.
Print Assumptions LN_interval_mass.
