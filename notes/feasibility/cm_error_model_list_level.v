(* Prototype: list-level C04 statements for the constant+multiplicative error model *)
From Coq Require Import Reals Lra List ssreflect.
From Coquelicot Require Import Coquelicot.
Import ListNotations.
Open Scope R_scope.

Fixpoint Rsum (l : list R) : R := match l with [] => 0 | x :: t => x + Rsum t end.
Lemma is_derive_Rsum {A} (l : list A) (f : A -> R -> R) (d : A -> R) x :
  (forall a, In a l -> is_derive (f a) x (d a)) ->
  is_derive (fun t => Rsum (map (fun a => f a t) l)) x (Rsum (map d l)).
Proof.
  induction l as [|a l IH]; intros H; simpl.
  - apply @is_derive_const.
  - apply @is_derive_plus; [apply H; now left | apply IH; intros b Hb; apply H; now right].
Qed.

(* one observation j is a record of: model output as a function of the moving coordinate, its sensitivity, the observation *)
Record obs := { out : R -> R; sens : R; y : R }.

Definition cm_pw (sb sr m yy : R) : R :=
  - ln (2*PI)/2 - ln (sb + sr * m) - (m - yy)^2 / (sb + sr*m)^2 / 2.

(* total as the code computes it: -n log(2pi)/2 - sum log sigma_tot - sum (..)^2/sigma_tot^2 / 2 *)
Definition cm_total (sb sr : R) (ms ys : list R) : R :=
  - INR (length ms) * ln (2*PI) / 2
  - Rsum (map (fun m => ln (sb + sr * m)) ms)
  - Rsum (map (fun p => (fst p - snd p)^2 / (sb + sr * fst p)^2) (combine ms ys)) / 2.

Lemma cm_total_is_sum sb sr ms ys : length ms = length ys ->
  cm_total sb sr ms ys = Rsum (map (fun p => cm_pw sb sr (fst p) (snd p)) (combine ms ys)).
Proof.
  revert ys; induction ms as [|m ms IH]; intros [|yy ys] H; try discriminate.
  - unfold cm_total; simpl. lra.
  - injection H as H. specialize (IH ys H). unfold cm_total in *. cbn [length map combine Rsum fst snd].
    rewrite S_INR. rewrite -IH. unfold cm_pw. lra.
Qed.

(* d/dpsi through arbitrary differentiable outputs, as the code's dpsi formula *)
Definition cm_dpsi_term (sb sr m s yy : R) : R :=
  (yy - m) / (sb + sr*m)^2 * s - sr * (s / (sb + sr*m)) + sr * ((yy - m)^2 / (sb + sr*m)^3 * s).

Lemma cm_pw_dpsi sb sr (o : obs) x :
  0 < sb + sr * out o x -> is_derive (out o) x (sens o) ->
  is_derive (fun t => cm_pw sb sr (out o t) (y o)) x (cm_dpsi_term sb sr (out o x) (sens o) (y o)).
Proof.
  intros Hs Hf. unfold cm_pw, cm_dpsi_term.
  auto_derive.
  - repeat split; try (eexists; exact Hf); try lra. apply Rgt_not_eq; nra.
  - replace (Derive (fun x0 : R => out o x0) x) with (sens o) by (symmetry; apply is_derive_unique; exact Hf).
    field. lra.
Qed.

Lemma map_combine_map {A B C D} (f : A -> B) (g : A -> C) (h : B * C -> D) (l : list A) :
  map h (combine (map f l) (map g l)) = map (fun a => h (f a, g a)) l.
Proof. induction l as [|a l IH]; simpl; [reflexivity | now rewrite IH]. Qed.

Theorem cm_dpsi sb sr (os : list obs) x :
  (forall o, In o os -> 0 < sb + sr * out o x /\ is_derive (out o) x (sens o)) ->
  is_derive (fun t => cm_total sb sr (map (fun o => out o t) os) (map y os)) x
            (Rsum (map (fun o => cm_dpsi_term sb sr (out o x) (sens o) (y o)) os)).
Proof.
  intros H.
  apply is_derive_ext with (fun t => Rsum (map (fun o => cm_pw sb sr (out o t) (y o)) os)).
  - intros t. rewrite cm_total_is_sum; [|now rewrite !map_length].
    now rewrite (map_combine_map (fun o => out o t) y (fun p => cm_pw sb sr (fst p) (snd p))).
  - apply (is_derive_Rsum os (fun o t => cm_pw sb sr (out o t) (y o))).
    intros o Ho. destruct (H o Ho) as [Hs Hd]. now apply cm_pw_dpsi.
Qed.
Print Assumptions cm_dpsi.
