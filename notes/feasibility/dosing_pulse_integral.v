(* Prototype: integral of one dosing pulse (C10_cumulative, single event) *)
From Coq Require Import Reals Lra ssreflect.
From Coquelicot Require Import Coquelicot.
Open Scope R_scope.

(* myokit semantics: level r on [s, s+d), 0 elsewhere *)
Definition pulse (r s d t : R) : R :=
  match Rle_dec s t with left _ => (match Rlt_dec t (s + d) with left _ => r | right _ => 0 end) | right _ => 0 end.
(* delivered amount up to T: r * |[s, s+d) ∩ [0, T]| *)
Definition overlap (s d T : R) : R := Rmax 0 (Rmin T (s + d) - s).

Lemma is_RInt_zero_on f a b : a <= b -> (forall t, a < t < b -> f t = 0) -> is_RInt f a b 0.
Proof.
  intros Hab H. apply is_RInt_ext with (fun _ => 0).
  - intros t Ht. rewrite Rmin_left in Ht; try lra. rewrite Rmax_right in Ht; try lra. symmetry. now apply H.
  - evar_last; [apply: is_RInt_const | rewrite /scal /= /mult /=; ring].
Qed.

Lemma is_RInt_const_on f a b c : a <= b -> (forall t, a < t < b -> f t = c) -> is_RInt f a b ((b - a) * c).
Proof.
  intros Hab H. apply is_RInt_ext with (fun _ => c).
  - intros t Ht. rewrite Rmin_left in Ht; try lra. rewrite Rmax_right in Ht; try lra. symmetry. now apply H.
  - evar_last; [apply: is_RInt_const | rewrite /scal /= /mult /=; ring].
Qed.

Ltac case_le := repeat (match goal with |- context [Rle_dec ?a ?b] => destruct (Rle_dec a b) end).
Ltac minmax := unfold Rmin; case_le; unfold Rmax; case_le; rewrite /plus /=; try lra; try ring; try (exfalso; lra); try nra.

Theorem pulse_integral r s d T : 0 <= s -> 0 < d -> 0 <= T ->
  is_RInt (pulse r s d) 0 T (r * overlap s d T).
Proof.
  intros Hs Hd HT. unfold overlap.
  destruct (Rle_dec T s) as [H1|H1].
  - (* before the pulse *)
    assert (E : Rmax 0 (Rmin T (s + d) - s) = 0) by minmax. rewrite E Rmult_0_r.
    apply is_RInt_zero_on; [lra|]. intros t Ht. unfold pulse. destruct (Rle_dec s t); [lra|reflexivity].
  - apply Rnot_le_lt in H1.
    destruct (Rle_dec T (s + d)) as [H2|H2].
    + (* inside the pulse *)
      assert (E : Rmax 0 (Rmin T (s + d) - s) = T - s) by minmax. rewrite E.
      replace (r * _) with (plus 0 ((T - s) * r)) by (rewrite /plus /=; ring).
      apply: (is_RInt_Chasles _ 0 s T).
      * apply is_RInt_zero_on; [lra|]. intros t Ht. unfold pulse. destruct (Rle_dec s t); [lra|reflexivity].
      * apply is_RInt_const_on; [lra|]. intros t Ht. unfold pulse. destruct (Rle_dec s t); [|lra]. destruct (Rlt_dec t (s + d)); [reflexivity|lra].
    + apply Rnot_le_lt in H2.
      assert (E : Rmax 0 (Rmin T (s + d) - s) = d) by minmax. rewrite E.
      replace (r * _) with (plus (plus 0 ((s + d - s) * r)) 0) by (rewrite /plus /=; ring).
      apply: (is_RInt_Chasles _ 0 (s + d) T).
      * apply: (is_RInt_Chasles _ 0 s (s + d)).
        -- apply is_RInt_zero_on; [lra|]. intros t Ht. unfold pulse. destruct (Rle_dec s t); [lra|reflexivity].
        -- apply is_RInt_const_on; [lra|]. intros t Ht. unfold pulse. destruct (Rle_dec s t); [|lra]. destruct (Rlt_dec t (s + d)); [reflexivity|lra].
      * apply is_RInt_zero_on; [lra|]. intros t Ht. unfold pulse. destruct (Rle_dec s t); [|reflexivity]. destruct (Rlt_dec t (s + d)); [lra|reflexivity].
Qed.
Print Assumptions pulse_integral.
