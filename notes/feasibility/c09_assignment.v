(* Prototype: C09 state assignment. Names are compared through an injective code into Z (ASCII strings -> base-256 numbers
   in the real model; here any strict total order). published = sorted names; original_order[i] = rank of names[i];
   the solver receives  state[i] = theta[original_order[i]].  Claim: the state called published[j] receives theta[j]. *)
From Coq Require Import List ZArith Lia Bool Sorted Permutation.
Import ListNotations.
Open Scope Z_scope.

Fixpoint insert (x : Z) (l : list Z) : list Z :=
  match l with [] => [x] | y :: t => if x <=? y then x :: l else y :: insert x t end.
Definition sort (l : list Z) : list Z := fold_right insert [] l.
Fixpoint rank (l : list Z) (x : Z) : nat :=      (* number of elements smaller than x = argsort(argsort(names)) entry *)
  match l with [] => 0%nat | y :: t => ((if (y <? x)%Z then 1 else 0) + rank t x)%nat end.

Definition sinc := StronglySorted Z.lt.

Lemma insert_perm x l : Permutation (x :: l) (insert x l).
Proof. induction l as [|y l IH]; cbn [insert]; [reflexivity|]. destruct (x <=? y); [reflexivity|]. rewrite perm_swap. now constructor. Qed.
Lemma sort_perm l : Permutation l (sort l).
Proof. unfold sort. induction l as [|x l IH]; cbn [fold_right]; [reflexivity|]. rewrite <- insert_perm. now constructor. Qed.

Lemma insert_sinc x l : ~ In x l -> sinc l -> sinc (insert x l).
Proof.
  unfold sinc. induction l as [|y l IH]; cbn [insert]; intros Hn H.
  - constructor; constructor.
  - inversion H as [|? ? Hs Hf]; subst. destruct (Z.leb_spec x y).
    + assert (x < y) by (cbn in Hn; lia). constructor; [assumption|]. constructor; [assumption|].
      eapply Forall_impl; [|eassumption]. intros; cbn in *; lia.
    + constructor.
      * apply IH; [cbn in Hn; tauto | assumption].
      * apply Forall_forall. intros z Hz. apply (Permutation_in _ (Permutation_sym (insert_perm x l))) in Hz.
        destruct Hz as [->|Hz]; [lia|]. rewrite Forall_forall in Hf. now apply Hf.
Qed.
Lemma sort_sinc l : NoDup l -> sinc (sort l).
Proof.
  unfold sort. induction l as [|x l IH]; cbn [fold_right]; intros H; [constructor|]. inversion H; subst.
  apply insert_sinc; [|now apply IH]. intros Hin. apply (Permutation_in _ (Permutation_sym (sort_perm l))) in Hin. contradiction.
Qed.

Lemma rank_perm l1 l2 x : Permutation l1 l2 -> rank l1 x = rank l2 x.
Proof. induction 1; cbn [rank]; lia. Qed.

(* in a strictly increasing list the element at position j has exactly j smaller elements *)
Lemma rank_nth s : sinc s -> forall j d, (j < length s)%nat -> rank s (nth j s d) = j.
Proof.
  unfold sinc. induction s as [|y s IH]; intros H j d Hj; [cbn in Hj; lia|].
  inversion H as [|? ? Hs Hf]; subst. rewrite Forall_forall in Hf. destruct j as [|j]; cbn [nth rank].
  - rewrite Z.ltb_irrefl. cbn. clear IH Hj H. induction s as [|z s IHs]; cbn [rank]; [reflexivity|].
    assert (y < z) by (apply Hf; now left). destruct (Z.ltb_spec z y); [lia|]. cbn. apply IHs.
    + now inversion Hs.
    + intros w Hw. apply Hf. now right.
  - cbn in Hj. assert (Hin : In (nth j s d) s) by (apply nth_In; lia). specialize (Hf _ Hin).
    destruct (Z.ltb_spec y (nth j s d)); [|lia]. rewrite IH; [lia | assumption | lia].
Qed.

(* main statement *)
Theorem C09_assignment (names : list Z) (theta : list Z) (d : Z) (i j : nat) :
  NoDup names -> (i < length names)%nat -> (j < length names)%nat ->
  nth i names d = nth j (sort names) d ->          (* the i-th declared state is the j-th published name *)
  nth (rank names (nth i names d)) theta d = nth j theta d.   (* the solver's i-th entry is theta[j] *)
Proof.
  intros Hnd Hi Hj E. f_equal. rewrite E.
  rewrite (rank_perm names (sort names) _ (sort_perm names)).
  apply rank_nth; [now apply sort_sinc|]. now rewrite <- (Permutation_length (sort_perm names)).
Qed.
Print Assumptions C09_assignment.
